#!/venv/bin/python
"""Run the checks against the independently written breaking changes kept
under /verif/seeded/<id>/ (patch.diff, demo.py, meta.json).

For each: copy /repo's package to a scratch directory, apply the patch there,
confirm the demonstration fails with the patch and passes without it, run the
property's check (quick tier by default) with VERIF_REPO pointing at the copy,
and report CAUGHT / MISSED.  Nothing is ever applied to /repo itself.

usage: selftest/seeded.py [--id C01-2] [--prop C01] [--tier quick] [--other]
  --other   also run every other registered check against the patch
"""

import argparse
import glob
import json
import os
import shutil
import subprocess
import sys
import tempfile
import time

HERE = os.path.dirname(os.path.abspath(__file__))
VERIF = os.path.dirname(HERE)
REPO = '/repo'
PY = '/venv/bin/python'


def scratch_root():
    for d in ('/dev/shm', os.environ.get('TMPDIR') or '/tmp'):
        if os.path.isdir(d) and os.access(d, os.W_OK):
            return d
    return tempfile.gettempdir()


def run_check(prop, tier, repo, out):
    env = dict(os.environ, VERIF_REPO=repo, VERIF_OUT=out, VERIF_SEED='1',
               PYTHONHASHSEED='0')
    t0 = time.time()
    p = subprocess.run([PY, '-m', 'vcheck', prop, '--tier', tier], cwd=VERIF,
                       env=env, stdout=subprocess.PIPE,
                       stderr=subprocess.STDOUT, text=True)
    return p.returncode, p.stdout, time.time() - t0


def main():
    ap = argparse.ArgumentParser()
    ap.add_argument('--id')
    ap.add_argument('--prop')
    ap.add_argument('--tier', default='quick')
    ap.add_argument('--other', action='store_true')
    ap.add_argument('--refactors', action='store_true',
                    help='run against /verif/refactors/<id>/ (property-'
                         'preserving changes): the check must stay quiet')
    ap.add_argument('-v', action='store_true')
    args = ap.parse_args()
    with open(os.path.join(VERIF, 'MANIFEST.json')) as f:
        registered = [c['property_id'] for c in json.load(f)['checks']]
    root = scratch_root()
    out = tempfile.mkdtemp(prefix='oslo-seeded-out-', dir=root)
    rc_all = 0
    results = []
    try:
        kind = 'refactors' if args.refactors else 'seeded'
        for d in sorted(glob.glob(os.path.join(VERIF, kind, '*'))):
            sid = os.path.basename(d)
            meta_p = os.path.join(d, 'meta.json')
            if not os.path.exists(meta_p):
                continue
            with open(meta_p) as f:
                meta = json.load(f)
            import re
            prop = re.match(r'C\d+', meta['property']).group(0)
            if args.id and sid != args.id:
                continue
            if args.prop and prop != args.prop:
                continue
            work = tempfile.mkdtemp(prefix='oslo-seed-', dir=root)
            try:
                shutil.copytree(os.path.join(REPO, 'oslo_utils'),
                                os.path.join(work, 'oslo_utils'),
                                ignore=shutil.ignore_patterns('__pycache__'))
                ap_ = subprocess.run(
                    ['git', 'apply', '--whitespace=nowarn', '--include=oslo_utils/*',
                     os.path.join(d, 'patch.diff')], cwd=work,
                    stdout=subprocess.PIPE, stderr=subprocess.STDOUT,
                    text=True)
                if ap_.returncode != 0:
                    print('%s: patch does not apply: %s' % (sid, ap_.stdout))
                    rc_all = 1
                    continue
                demo = os.path.join(d, 'evidence.py' if args.refactors
                                    else 'demo.py')
                d_patched = subprocess.run([PY, demo, work],
                                           stdout=subprocess.PIPE,
                                           stderr=subprocess.STDOUT,
                                           text=True).returncode
                d_clean = subprocess.run([PY, demo, REPO],
                                         stdout=subprocess.PIPE,
                                         stderr=subprocess.STDOUT,
                                         text=True).returncode
                rc, txt, dt = run_check(prop, args.tier, work, out)
                caught = rc == 1 and 'VIOLATION property=' in txt
                line = [ln for ln in txt.splitlines()
                        if ln.startswith('  ')][:1]
                others = []
                if args.other:
                    for p2 in registered:
                        if p2 == prop:
                            continue
                        rc2, txt2, _ = run_check(p2, args.tier, work, out)
                        if rc2 == 1:
                            others.append(p2)
                        elif rc2 != 0:
                            others.append(p2 + '(harness-error)')
                status = 'CAUGHT' if caught else (
                    'HARNESS-ERROR' if rc == 2 else 'MISSED')
                if args.refactors:
                    status = {'CAUGHT': 'FALSE-ALARM', 'MISSED': 'QUIET',
                              'HARNESS-ERROR': 'HARNESS-ERROR'}[status]
                print('%s %s: %s rc=%d %.1fs demo(patched=%d clean=%d) %s%s'
                      % (sid, prop, status, rc, dt, d_patched, d_clean,
                         meta.get('title', ''),
                         (' | also flagged by ' + ','.join(others))
                         if others else ''))
                if line and (args.v or caught):
                    print('   ', line[0].strip()[:260])
                if rc == 2 or (args.v and not caught):
                    print('    ' + '\n    '.join(txt.splitlines()[-8:]))
                if args.refactors:
                    if status != 'QUIET' or d_patched != 0 or d_clean != 0:
                        rc_all = 1
                        if status == 'FALSE-ALARM' and line:
                            print('   ', line[0].strip()[:400])
                elif not caught or d_patched == 0 or d_clean != 0:
                    rc_all = 1
                results.append((sid, status))
            finally:
                shutil.rmtree(work, ignore_errors=True)
    finally:
        shutil.rmtree(out, ignore_errors=True)
    n = len(results)
    if args.refactors:
        c = sum(1 for _s, st in results if st == 'QUIET')
        print('property-preserving refactors: %d, quiet under their '
              'property\'s %s check: %d' % (n, args.tier, c))
        return rc_all
    c = sum(1 for _s, st in results if st == 'CAUGHT')
    print('seeded changes: %d, caught by their property\'s %s check: %d'
          % (n, args.tier, c))
    return rc_all


if __name__ == '__main__':
    sys.exit(main())
