#!/venv/bin/python
"""Sensitivity self-test: apply textual mutants to scratch copies of the
package and expect the property's quick check to report a VIOLATION.

usage: selftest/run.py [--prop C13] [--id M13-1] [--tier quick] [--quiet N]

--quiet N : instead of mutants, run the check N times on the unchanged tree
            with different seeds and expect exit 0 every time.

Scratch copies live under /dev/shm (or $TMPDIR) and are removed after each
mutant.  Not a registered check; results are summarised in DESIGN.md.
"""

import argparse
import json
import os
import shutil
import subprocess
import sys
import tempfile
import time

HERE = os.path.dirname(os.path.abspath(__file__))
VERIF = os.path.dirname(HERE)
REPO = '/repo'
PY = '/venv/bin/python'


def scratch_root():
    for d in ('/dev/shm', os.environ.get('TMPDIR') or '/tmp'):
        if os.path.isdir(d) and os.access(d, os.W_OK):
            return d
    return tempfile.gettempdir()


def run_check(prop, tier, repo, out, seed=1, budget=None):
    env = dict(os.environ, VERIF_REPO=repo, VERIF_OUT=out,
               VERIF_SEED=str(seed), PYTHONHASHSEED='0')
    if budget:
        env['VERIF_BUDGET_S'] = str(budget)
    t0 = time.time()
    p = subprocess.run([PY, '-m', 'vcheck', prop, '--tier', tier],
                       cwd=VERIF, env=env, stdout=subprocess.PIPE,
                       stderr=subprocess.STDOUT, text=True)
    return p.returncode, p.stdout, time.time() - t0


def main():
    ap = argparse.ArgumentParser()
    ap.add_argument('--prop')
    ap.add_argument('--id')
    ap.add_argument('--tier', default='quick')
    ap.add_argument('--quiet', type=int, default=0)
    ap.add_argument('-v', action='store_true')
    args = ap.parse_args()
    import glob
    mutants = []
    for mp in sorted(glob.glob(os.path.join(HERE, 'mutants*.json'))):
        with open(mp) as f:
            mutants.extend(json.load(f)['mutants'])
    root = scratch_root()
    out = tempfile.mkdtemp(prefix='oslo-selftest-out-', dir=root)
    rc_all = 0
    try:
        if args.quiet:
            props = [args.prop] if args.prop else sorted(
                {m['property'] for m in mutants})
            for prop in props:
                for seed in range(1, args.quiet + 1):
                    rc, txt, dt = run_check(prop, args.tier, REPO, out,
                                            seed * 7919)
                    ok = rc == 0 and 'VIOLATION' not in txt
                    print('%s seed=%d rc=%d %.1fs %s' % (
                        prop, seed * 7919, rc, dt, 'quiet' if ok else 'NOISY'))
                    if not ok:
                        rc_all = 1
                        print(txt)
            return rc_all
        for m in mutants:
            if args.prop and m['property'] != args.prop:
                continue
            if args.id and m['id'] != args.id:
                continue
            work = tempfile.mkdtemp(prefix='oslo-mut-', dir=root)
            try:
                shutil.copytree(os.path.join(REPO, 'oslo_utils'),
                                os.path.join(work, 'oslo_utils'),
                                ignore=shutil.ignore_patterns(
                                    '__pycache__', 'tests'))
                path = os.path.join(work, m['file'])
                with open(path) as f:
                    src = f.read()
                n = src.count(m['old'])
                if n != m.get('count', 1):
                    print('%s: SKIP pattern occurs %d times' % (m['id'], n))
                    rc_all = 1
                    continue
                src = src.replace(m['old'], m['new'])
                with open(path, 'w') as f:
                    f.write(src)
                rc, txt, dt = run_check(m['property'], args.tier, work, out)
                caught = rc == 1 and 'VIOLATION property=' in txt
                print('%s %s: %s rc=%d %.1fs  %s' % (
                    m['id'], m['property'],
                    'CAUGHT' if caught else 'MISSED', rc, dt, m['note']))
                if args.v or not caught:
                    tail = [ln for ln in txt.splitlines()
                            if not ln.startswith(('VIOLATION', 'KNOWN-FINDING'))][-6:]
                    print('    ' + '\n    '.join(tail))
                if not caught:
                    rc_all = 1
            finally:
                shutil.rmtree(work, ignore_errors=True)
    finally:
        shutil.rmtree(out, ignore_errors=True)
    return rc_all


if __name__ == '__main__':
    sys.exit(main())
