#!/usr/bin/env python3
"""Validate evidence/*.json against the evidence schema (tooling venv)."""
import glob, json, sys, os
import jsonschema
V = os.path.dirname(os.path.dirname(os.path.abspath(__file__)))
schema = json.load(open('/root/.vp/EVIDENCE.schema.json'))
bad = 0
for p in sorted(glob.glob(os.path.join(V, 'evidence', '*.json'))):
    try:
        jsonschema.validate(json.load(open(p)), schema)
        print('ok ', os.path.basename(p))
    except Exception as e:
        bad += 1
        print('BAD', os.path.basename(p), str(e)[:300])
sys.exit(1 if bad else 0)
