#!/venv/bin/python
"""Regenerate /verif/MANIFEST.json from the table below and validate it."""

import json
import os
import sys

VERIF = os.path.dirname(os.path.dirname(os.path.abspath(__file__)))

# id -> (technique, level category, level text, level note, design ref)
CHECKS = {
    'C01': (
        'metamorphic (schedule-permutation) testing with Hypothesis over '
        'layout-built images + exhaustive enumeration of the capture engine',
        'exploration',
        'Capture engine: every chunking (and empty-chunk insertion) of '
        'streams up to length 9 (quick) / 12 (thorough) for every region '
        'offset/length/min_length, through the bare regions, a FileInspector '
        'subclass, and mid-stream chained regions - exhaustive within the '
        'bound. Real inspectors and InspectWrapper: generated content x '
        'schedule x query plan, all ten verdicts compared with a reference '
        'schedule, retention fidelity after every chunk - sampled. '
        'Relational oracle, so it cannot be wrong about formats; recorded '
        'findings F-b/F-c/F-n are routed by predicate.',
        'Blind to defects identical under all schedules; post-error state of '
        'an inspector that raised is outside the statement; streams <= 3 MiB.',
        'DESIGN.md section 4 C01'),
    'C02': (
        'construction with known unsafe traits (three-valued oracle), '
        'exhaustive finite families, Hypothesis trait mixes, CLI differential',
        'exploration',
        'All 50 625 MBR tables of the bounded family, the qcow2 version x '
        'feature-bit x backing-offset grid and the VMDK/LUKS/QED sweeps are '
        'enumerated completely; trait mixes, truncations, foreign content and '
        'raising checks are sampled with Hypothesis; the CLI is run in '
        'process on the same files (subprocess sample). must-reject and '
        'must-accept come from what the builder put into the image.',
        'Unsafe = what the statement enumerates, pinned in vcheck.imggen; '
        'spellings the statement does not mention are counted as unspecified.',
        'DESIGN.md section 4 C02'),
    'C03': (
        'reference model of signature presence (definite / marginal / '
        'absent) + totality fuzzing + per-read history invariant',
        'exploration',
        'Every subset of the nine signatures on three backgrounds at lengths '
        'around every decision point is enumerated (unrestricted detection, '
        'three read patterns, and detect_file_format on files); valid, '
        'mutated, truncated, polyglot and unstructured contents x '
        'allowed_formats subsets x read sizes x read/iter are sampled with '
        'Hypothesis. The observed format/formats must be an admissible '
        'outcome of the model; only ImageFormatError may be raised; format '
        'is sampled after every read for the no-revision clause.',
        'Trusts vcheck.sigmodel (written from the format documents); '
        'marginal content and the text-descriptor VMDK class (text carrying a createType=" line) admit either '
        'answer.',
        'DESIGN.md section 4 C03'),
    'C04': (
        'grammar-based construction with expected output known by '
        'construction + idempotence (exhaustive key x rendering x character '
        'table, Hypothesis composite messages)',
        'exploration',
        'All 35 pinned keys x case/digit variants x 27 renderings x 63 '
        'special characters are enumerated; composite messages of 1-3 '
        'secrets (1-40 characters, regex metacharacters, non-ASCII, spaces '
        'inside quoted/XML renderings) in neutral context x 7 masks are '
        'sampled. Output must equal the message with each secret replaced by '
        'the mask; masking again changes nothing; key-free messages are '
        'unchanged. Finding F-e is routed by predicate (tied to its probe).',
        'Renderings outside the documented list are not claimed; a '
        'JSON-style item followed by later quoted text is the recorded '
        'finding F-e.',
        'DESIGN.md section 4 C04'),
    'C05': (
        'invariant monitored after every chunk of generated schedules over '
        'hostile-field images (Hypothesis + deterministic sweeps)',
        'exploration',
        'Streams of 0.6-4 MiB whose length/count/offset fields announce '
        'oversized structures (every listed boundary value swept '
        'deterministically, mixes sampled), valid images followed by filler, '
        'text and random data x coarse/giant/boundary-aimed schedules; '
        'sum(context_info) of all ten inspectors is read after every chunk '
        'and after finish(), also inside InspectWrapper.',
        'Observes context_info (the audit accessor named by the statement), '
        'not the allocator; streams are bounded at ~4 MiB.',
        'DESIGN.md section 4 C05'),
    'C06': (
        'fault enumeration with instrumented inspectors + differential '
        'against shadow inspectors; multi-fault plans with Hypothesis',
        'fault_enumeration',
        'Every single fault (10 inspectors x every chunk index x 9 exception '
        'kinds incl. message-less ones) x expected_format in {None, ten names} x read/iteration on '
        'eight fixed sources is enumerated; multiple simultaneous faults, '
        'allowed_formats subsets and generated sources are sampled. The '
        'reader\'s bytes, the calls reaching every inspector, which read '
        'raises which exception object, the source position after an abort '
        'and finish/close are compared with what shadow inspectors predict.',
        'Exception subclasses only (no KeyboardInterrupt); relies on '
        'InspectWrapper building inspectors from ALL_FORMATS (guarded).',
        'DESIGN.md section 4 C06'),
    'C07': (
        'round trip against layout-built ground truth + prefix enumeration '
        '(Hypothesis + exhaustive sweeps)',
        'exploration',
        'Declared sizes over each field\'s full range x admissible layouts x '
        'schedules: virtual_size after finish() equals the size the builder '
        'wrote; every proper prefix of small images and boundary-aimed / '
        'sampled prefixes of ISO/VMDK/VHDX for the "0 while unknown" clause. '
        'Sampled (edge-value sweeps are complete over the listed edge set).',
        'Trusts imggen\'s reading of the format documents; in-between '
        'prefixes (field present, structure not complete) may report 0 or '
        'the size.',
        'DESIGN.md section 4 C07'),
    'C08': (
        'reference model (independent recursion over generated nested '
        'mappings) + before/after deep snapshot, Hypothesis recursive strategy',
        'exploration',
        'Nested mappings of depth <= 4 / width <= 5 over dict, OrderedDict, '
        'MappingProxyType and a hand-written Mapping, keys str (every pinned '
        'sanitize key embedded in every case/position, near-misses), int, '
        'tuple, bytes, None; values str/bytes/numbers/None/lists/mappings; '
        'result compared with an independent recursion, argument snapshotted '
        'before and compared after, TypeError for non-mappings. Sampled.',
        'Plain string values use the real mask_password as reference (C04 '
        'owns it); the 35 sanitize keys are pinned in the harness.',
        'DESIGN.md section 4 C08'),
    'C09': (
        'program generation: handler bodies as small ASTs interpreted against '
        'the real helpers with a reference semantics (exhaustive to a node '
        'bound + Hypothesis)',
        'exploration',
        'Every handler body up to 3 (quick) / 4 (thorough) nodes over {nop, '
        'raise-and-catch, toggle reraise, nested save_and_reraise, capture, '
        'force_reraise, raise new} x 5 exception kinds x initial flag is '
        'enumerated, deeper bodies sampled; outcome predicted by object '
        'identity, traceback tail and error-log count; exception_filter over '
        'all use forms x predicate table, remove_path_on_error and '
        'raise_with_cause tables are complete.',
        'Bodies run inside an except block (the statement presupposes an '
        'active exception); greenthread switches are modelled only by '
        'raise-and-catch; finding F-g routed by predicate.',
        'DESIGN.md section 4 C09'),
    'C10': (
        'grammar construction with validity known by construction + exact '
        'rational reference (exhaustive grid and short-string enumeration, '
        'Hypothesis corruptions)',
        'exploration',
        'A 975 744-case grid of sign x magnitude x prefix (all 22 + foreign) '
        'x unit x unit system x return_int and every string up to length 5 '
        'over a 12-symbol alphabet are enumerated; results compared with '
        'Fractions (1e-12 relative where floats are allowed, exact ceilings '
        'otherwise); anything invalid by construction must raise ValueError '
        'and nothing else; QemuImgInfo human-format lines (deterministic '
        'table + Hypothesis) with the explicit "(N bytes)" precedence.',
        'Magnitudes that overflow float and non-ASCII digits are '
        'unspecified; validity by construction is cross-checked against an '
        'independent recogniser.',
        'DESIGN.md section 4 C10'),
    'C11': (
        'validity-by-construction grammars + differential against the '
        'standard library ipaddress (Hypothesis + deterministic families)',
        'exploration',
        'Address / CIDR / MAC / port / ICMP strings from grammars that know '
        'their validity, each put to all eleven validators: must-accept when '
        'valid by construction and accepted by ipaddress, must-reject when '
        'invalid and rejected by it, never an exception for any str; range '
        'ends in int and str form enumerated. Finding F-j (netaddr-lenient '
        'prefix spellings) routed by predicate.',
        'ipaddress is the arbiter where it defines the answer; inet_aton '
        'forms, is_valid_ipv6_cidr on a bare address, scope ids inside CIDRs '
        'and non-canonical integer spellings are unspecified.',
        'DESIGN.md section 4 C11'),
    'C12': (
        'round trips + integer-microsecond reference model, boundary-aimed '
        'generation, exhaustive minute offsets',
        'exploration',
        'All 2879 minute offsets are enumerated for normalize/isoformat/'
        'comparisons; datetimes over the representable range x zones x '
        'second counts placed exactly on and 1 us either side of the '
        'comparison boundary x override instants are sampled with '
        'Hypothesis; marshalling and the overridden clock (direct and '
        'TimeFixture) are compared with integer-microsecond arithmetic.',
        'Trusts the integer-microsecond model and the stdlib datetime/'
        'zoneinfo; sub-microsecond second counts are not generated.',
        'DESIGN.md section 4 C12'),
    'C14': (
        'classification by construction + cross-function relations '
        '(exhaustive word / short-string tables, Hypothesis near-misses)',
        'exploration',
        'The 12 boolean words in every case pattern x padding x strict x '
        'default and every numeric string up to length 5 over a 9-symbol '
        'alphabet are enumerated for is_int_like / validate_integer; '
        'check_string_length table; Hypothesis for near-misses, big integers '
        'and every UUID spelling (31..34 hex digits in every decoration); '
        'generate_uuid draws must satisfy is_uuid_like; is_valid_boolstr '
        'must agree with strict bool_from_string on unpadded input.',
        'Unicode padding / case folding, non-canonical integer spellings '
        'int() accepts, max_length=0 and upper-case URN:UUID: are '
        'unspecified.',
        'DESIGN.md section 4 C14'),
    'C15': (
        'independent bit arithmetic + inverse composition + differential '
        'against urllib.parse (deterministic families + Hypothesis)',
        'exploration',
        'MAC bit patterns (all-zero/one, each single bit, U/L bit, random) x '
        'prefixes with and without host bits: EUI-64 address computed with '
        'plain integers, inverse recovers the MAC; host:port round trip over '
        'names, IPv4, IPv6 with scopes x ports x defaults; URLs from a '
        'grammar compared component-wise with urllib.parse.urlsplit and '
        'params() with the generating pairs.',
        'Prefixes longer than /64, netaddr-only MAC spellings and IPv4 CIDRs '
        'as prefix are unspecified (exception contract only).',
        'DESIGN.md section 4 C15'),
    'C16': (
        'round trip / algebraic laws over generated text x codec tables '
        '(Hypothesis), stdlib codecs as reference',
        'exploration',
        '11 codecs in several spellings x {strict, ignore, replace}: '
        'safe_decode / safe_encode / to_utf8 compared with the stdlib codec '
        'result, round trip where the codec is bijective on the text, type '
        'contract and TypeError table (complete), to_slug alphabet, single '
        'hyphens, idempotence and exact result on ASCII words. Sampled.',
        'incoming is always passed explicitly (its default depends on the '
        'process stdin); undecodable / unencodable inputs only have their '
        'result type or exception class checked.',
        'DESIGN.md section 4 C16'),
    'C17': (
        'round trip + order isomorphism (exhaustive boundary tuples) + own '
        'PEP 440 comparison key as reference',
        'exploration',
        'Every component tuple of length 1-5 over {0,1,9,10,99,100,999} '
        '(16 806) is enumerated for int/str/tuple round trips and order '
        'isomorphism; is_compatible and VersionPredicate are compared with an '
        'independent PEP 440 key over generated version pairs, a hand-written '
        'ordering chain (all pairs) and 1-3-comparison predicates; malformed '
        'predicates must raise ValueError.',
        'The PEP 440 key is cross-checked against packaging in a side task '
        '(disagreement = harness error); local version labels and digit-less '
        'suffixes are not generated.',
        'DESIGN.md section 4 C17'),
    'C18': (
        'reference operator table evaluated with exact rationals / code '
        'points over grammar-generated specs',
        'exploration',
        'Per-operator tables (equal, adjacent, ordered operands; all four '
        'bracket pairs with the value below/on/between/on/above the ends; '
        '1-5 alternatives or list items; extra blanks) are enumerated, '
        'larger operand spaces sampled with Hypothesis; a validate() guard '
        'keeps generated specs inside the documented grammar.',
        'Specs outside the documented grammar are not generated; the oracle '
        'is the documented operator meaning written with Fractions.',
        'DESIGN.md section 4 C18'),
    'C19': (
        'reference model written from the statement + inverse of quoting '
        '(exhaustive bounded families + Hypothesis)',
        'exploration',
        'split_path compared with a reference model on every path of 0-7 '
        'segments x 46 (minsegs, maxsegs, rest_with_last) settings and on '
        'Hypothesis paths with Unicode segments; split_by_commas compared '
        'with a reference scanner on every string over {a , " \\ space} up '
        'to length 7, quote/join round trips and malformed constructions '
        '(ValueError only).',
        'maxsegs=0, unquoted spaces/backslashes and escapes of other '
        'characters are unspecified zones of the statement.',
        'DESIGN.md section 4 C19'),
    'C20': (
        'differential against whole-content computation (hashlib, slicing) + '
        'exhaustive errno injection',
        'exploration',
        'Contents of sizes around every chunk-size multiple x chunk sizes x '
        'algorithms against hashlib; last_bytes against slicing; '
        'write_to_tempfile over directory depths and pre-existing files; '
        'every errno of errno.errorcode injected into os.makedirs and the '
        'remove= callable (exhaustive), same-object propagation otherwise.',
        'Scratch files under /dev/shm; a collaborator that is not invoked '
        'is reported as seam_unreachable rather than judged.',
        'DESIGN.md section 4 C20'),
    'C13': (
        'model-based testing: exhaustive short histories + Hypothesis '
        'rule-based state machine against a reference model',
        'exploration',
        'Every history over the 13-symbol alphabet up to length 4 (quick) / 5 '
        '(thorough) for all 4 durations x 5 clock patterns, length 5 / 6 for '
        'selected configurations, plus Hypothesis rule-based histories of up '
        'to 50 steps, each step compared with a 60-line reference model. '
        'Exhaustive within the stated bound, sampled beyond it; no claim of '
        'absence outside.',
        'Trusts the reference model (written from the statement and '
        'docstrings) and that timeutils.now is the clock StopWatch reads '
        '(guarded at run time).',
        'DESIGN.md section 4 C13'),
}

PENDING_REASON = ('check not built yet in this round; design in DESIGN.md '
                  'section 4, construction order in section 2.7')


# what was added to every check after the rounds of independently written
# breaking changes (DESIGN.md 8.2 / 8.5)
IMAGE_EXTRA = (' Ambient per case: tracing flag, logger level, chunk object '
               'type (bytes / bytearray / memoryview of a reused buffer that '
               'is overwritten after the call), a decoy stream read through '
               'another instance, non-interned selector strings; the '
               'deterministic sub-checks run again in a python -O child; the '
               'documented call interface is pinned.')
EXTRA = {
    'C04': ' Also: 19-130 secrets per message, masks with backslashes, '
           'first-use thread schedules and preemption sweeps, python -O '
           'child, subclass arguments, interface pins.',
    'C08': ' Also: lazily built mapping chains, quacking non-mappings, '
           'fault-then-retry, preemption sweeps, python -O child.',
    'C09': ' Also: exception groups, falsy exception objects, reused '
           'instances, symlink and link/.. path states, python -O child.',
    'C10': ' Also: exactness (no tolerance) where binary floating point is '
           'exact, format tokens, long texts, first-use races and preemption '
           'sweeps, python -O child, subclass arguments.',
    'C11': ' Also: confusable code points, subclass arguments, preemption '
           'ring, python -O child.',
    'C12': ' Also: process-local time zone, huge second counts, repeated '
           'unmarshalling of one payload, python -O child.',
    'C13': ' Also: five-symbol core alphabet to length 7 / 9, zigzag clock, '
           'ticking clock with an interval oracle, decimal self-consistency '
           'relations, python -O child.',
    'C14': ' Also: confusable code points, blanks inside UUIDs, every odd '
           'subject type, subclass arguments, preemption sweeps.',
    'C15': ' Also: zone ids that read like encodings, IPv4 networks as '
           'prefixes, preemption ring, subclass arguments.',
    'C16': ' Also: ASCII text in codecs that are not ASCII supersets, '
           'ambient stdin encodings, python -O child.',
    'C17': ' Also: positional same_major, shared-predicate preemption ring, '
           'subclass arguments.',
    'C18': ' Also: grammar aliasing check, preemption ring, subclass '
           'arguments.',
    'C19': ' Also: preemption sweeps and first-use races of the lazily '
           'imported grammar, unclosed quotes after line breaks, format '
           'tokens, subclass arguments.',
    'C20': ' Also: errno on foreign exception classes, competitor races, '
           'eight real threads, procfs / FIFO sources, every hashlib '
           'algorithm, symlinked directories, link/.. paths.',
}
for _p in ('C01', 'C02', 'C03', 'C05', 'C06', 'C07'):
    EXTRA[_p] = IMAGE_EXTRA


def main():
    props = []
    with open(os.path.join(VERIF, 'properties.jsonl')) as f:
        for line in f:
            if line.strip():
                props.append(json.loads(line)['id'])
    checks = []
    for pid in props:
        if pid not in CHECKS:
            continue
        tech, cat, text, note, ref = CHECKS[pid]
        text = text + EXTRA.get(pid, '')
        checks.append({
            'property_id': pid,
            'quick_cmd': '/venv/bin/python -m vcheck %s --tier quick' % pid,
            'thorough_cmd': '/venv/bin/python -m vcheck %s --tier thorough'
                            % pid,
            'evidence_file': 'evidence/%s.json' % pid,
            'replay_cmd_template':
                '/venv/bin/python -m vcheck %s --replay {path}' % pid,
            'engine': 'vcheck',
            'level_claimed': {'category': cat, 'text': text,
                              'design_ref': ref},
            'level_note': note,
            'technique': tech,
        })
    manifest = {
        'version': 1,
        'setup_cmd': '/venv/bin/python -m vcheck.setup',
        'hooks': {
            'guard': 'OSLO_UTILS_VERIF',
            'enable': 'no hooks are compiled into /repo: every observation '
                      'point is public API and collaborators (clock, '
                      'os.makedirs, ALL_FORMATS, loggers) are replaced from '
                      'the harness side; checks import /repo\'s working tree '
                      'directly (VERIF_REPO overrides the path for the '
                      'mutant self-test)',
            'baseline_off_cmd':
                'cd /repo && /venv/bin/python -m pytest -ra -q '
                '-p no:cacheprovider --timeout=900 '
                '--continue-on-collection-errors',
            'source_commits': [],
            'add_only': True,
        },
        'engines': [{
            'name': 'vcheck',
            'path': 'vcheck/',
            'serves_properties': [c['property_id'] for c in checks],
            'kind_free_text': 'Python runner: per-property generators and '
                              'oracles (Hypothesis 6.168 strategies and '
                              'rule-based machines, exhaustive enumerators '
                              'for finite families, Atheris targets in the '
                              'thorough tier), sharded over 16 processes, '
                              'shrunk failures written as JSON replay files',
        }],
        'checks': checks,
        'notes': 'Exit 0 held / 1 VIOLATION line + replay / 2 harness error. '
                 'VERIF_SEED selects the random supplement; exhaustive '
                 'sub-checks are seed independent. known_findings.json lists '
                 'recorded defects (open entries print KNOWN-FINDING lines).',
        'not_applicable': [{'property_id': p, 'reason': PENDING_REASON}
                           for p in props if p not in CHECKS],
    }
    path = os.path.join(VERIF, 'MANIFEST.json')
    with open(path, 'w') as f:
        json.dump(manifest, f, indent=1)
        f.write('\n')
    try:
        import jsonschema
        with open('/root/.vp/MANIFEST.schema.json') as f:
            jsonschema.validate(manifest, json.load(f))
        print('MANIFEST.json valid, %d checks, %d not_applicable'
              % (len(checks), len(manifest['not_applicable'])))
    except ImportError:
        print('MANIFEST.json written (jsonschema not available here)')


if __name__ == '__main__':
    sys.exit(main())
