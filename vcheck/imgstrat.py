"""Hypothesis strategies producing images (vcheck.imggen.Img) and derived
byte strings: valid, field-mutated, truncated, extended, polyglot,
unstructured.  Every strategy yields a JSON-able *recipe* together with the
bytes, so a failing case can be rebuilt without Hypothesis:

    recipe = {'base': [fmt, params], 'edits': [[offset, hex], ...],
              'cut': n | None, 'extend': [seed, n] | None}
    or {'overlay': {...}}  or {'bytes': hex}
"""

from hypothesis import strategies as st

from vcheck import imggen as g

KI = 1024
MI = 1024 * 1024

U64_EDGES = sorted({0, 1, 2, 511, 512, 513, 2 ** 31 - 1, 2 ** 31, 2 ** 32 - 1,
                    2 ** 32, 2 ** 32 + 1, 2 ** 63 - 1, 2 ** 63, 2 ** 64 - 1} |
                   {2 ** k for k in range(0, 64, 7)} |
                   {2 ** k - 1 for k in range(8, 64, 9)} |
                   {2 ** k + 1 for k in range(8, 64, 11)})


def u64():
    return st.one_of(st.sampled_from(U64_EDGES), st.integers(0, 2 ** 64 - 1))


def u32():
    return st.one_of(st.sampled_from([0, 1, 2, 255, 256, 65535, 65536,
                                      2 ** 31 - 1, 2 ** 31, 2 ** 32 - 1]),
                     st.integers(0, 2 ** 32 - 1))


fills = st.integers(1, 2 ** 16)


# ------------------------------------------------------------ per-format

def qcow2_params(safe=None):
    """safe=True: only clean images; None: any trait mix."""
    if safe:
        feats = st.sets(st.sampled_from(g.QCOW2_KNOWN_SAFE_BITS)).map(
            lambda s: sum(1 << b for b in s))
        return st.fixed_dictionaries(dict(
            version=st.sampled_from([2, 3]), size=u64(), features=feats,
            length=st.sampled_from([512, 513, 1024, 4096, 70000]),
            fill=fills, cluster_bits=st.integers(9, 21),
            compat=st.integers(0, 3), autoclear=st.integers(0, 3)))
    feats = st.one_of(
        st.just(0),
        st.integers(0, 63).map(lambda b: 1 << b),
        st.sets(st.integers(0, 63), max_size=4).map(
            lambda s: sum(1 << b for b in s)),
        st.integers(0, 2 ** 64 - 1))
    return st.fixed_dictionaries(dict(
        version=st.sampled_from([0, 1, 2, 3, 3, 3, 4, 5, 2 ** 31,
                                 2 ** 32 - 1]),
        size=u64(),
        bf_offset=st.one_of(st.just(0), st.just(0), st.sampled_from(
            [1, 2 ** 32, 2 ** 63, 2 ** 64 - 1]), u64()),
        bf_size=st.sampled_from([0, 0, 1, 1023]),
        features=feats,
        length=st.sampled_from([512, 1024, 4096]),
        fill=fills, v2_tail_zero=st.booleans()))


def vhd_params():
    return st.fixed_dictionaries(dict(
        size=u64(), length=st.sampled_from([512, 513, 1024, 5000]),
        fill=fills))


def vdi_params():
    return st.fixed_dictionaries(dict(
        size=u64(), length=st.sampled_from([512, 513, 1024, 5000]),
        fill=fills))


def qed_params():
    return st.fixed_dictionaries(dict(
        length=st.sampled_from([512, 1024, 4096]), fill=fills))


def iso_params(valid=True):
    d = dict(
        blocks=u32(),
        block_size=st.sampled_from([512, 1024, 2048, 2048, 4096, 1, 65535]),
        ident=st.sampled_from([b'CD001', b'CD001', b'NSR02', b'NSR03']),
        tail=st.sampled_from([0, 1, 2048, 10000]), fill=fills,
        extra=st.sampled_from([0, 0, 0, 1, 3]),
        extra_type=st.sampled_from([0, 2, 3]))
    if not valid:
        d['dtype'] = st.sampled_from([0, 1, 1, 2, 255])
        d['extra'] = st.sampled_from([0, 1, 3, 40])
    return st.fixed_dictionaries(d)


def luks_params(safe=None):
    ver = st.just(1) if safe else st.sampled_from(
        [1, 1, 0, 2, 3, -1, 257, 32767, -32768])
    return st.fixed_dictionaries(dict(
        version=ver,
        payload_offset=st.sampled_from([2, 8, 8, 40, 4096] if safe else
                                       [0, 1, 2, 8, 8, 40]),
        payload=st.sampled_from([0, 1, 2048, 5000]), fill=fills))


def gpt_params(safe=None):
    if safe:
        ent = st.one_of(
            st.tuples(st.tuples(st.just('prot_ok'),
                                st.sampled_from([0, 0x80])),
                      *([st.just(('empty', 0))] * 3)),
            st.lists(st.tuples(st.sampled_from(['data', 'data', 'empty']),
                               st.sampled_from([0, 0x80])),
                     min_size=4, max_size=4).filter(
                lambda es: any(c != 'empty' for c, _b in es)).map(tuple))
    else:
        ent = st.lists(st.tuples(st.sampled_from(g.PTE_CLASSES),
                                 st.sampled_from(g.BOOT_CLASSES + (0, 0))),
                       min_size=4, max_size=4).map(tuple)
    return st.fixed_dictionaries(dict(
        entries=ent, length=st.sampled_from([512, 513, 1024, 5120]),
        fill=st.sampled_from([0, 0, 5, 9]),
        prot_size=st.sampled_from([0xffffffff, 0, 1, 9, 10, 4096,
                                   0x7fffffff, 0xfffffffe])))


VMDK_EXTRA_SAFE = (
    '', '# another comment', 'ddb.toolsVersion = "2147483647"',
    'ddb.uuid = "60 00 C2 9b"', 'encoding="UTF-8"', 'isNativeSnapshot="no"',
    'RDONLY 1 SPARSE "b.vmdk"', 'NOACCESS 7 SPARSE "c.vmdk"',
    'rw 99 sparse "d.vmdk" 0', '   ', '\t# indented comment')
VMDK_UNSAFE_LINES = (
    ('unknown_line', 'this line means nothing'),
    ('unknown_line', 'wronly 2048 somefile2.vmdk'),
    ('unknown_line', 'createType monolithicSparse extra'),
    ('unknown_line', 'change tracking enabled'),
    ('extent_path', 'RW 2048 FLAT "/etc/hosts" 0'),
    ('extent_path', 'RDONLY 2048 SPARSE "../other/disk.vmdk"'),
    ('extent_path', 'rw 1 vmfs "a/b.vmdk"'),
    # an '=' inside a line that is no key=value line (the part before the
    # '=' has blanks): the line is what it is
    ('extent_path', 'RW 20480 SPARSE "/var/lib/images/base=golden.vmdk"'),
    ('extent_path', 'RW 1 FLAT "/etc/passwd=x" 0'),
    ('unknown_line', 'two words=val'),
    ('unknown_line', 'foo bar = baz'),
    ('unknown_line', 'include other=thing.vmdk'),
)
# lines carrying control characters other than '\n' that some line
# splitters treat as line ends: still ONE descriptor line
for _sep in '\r\x0b\x0c\x1c\x1d\x1e\t':
    VMDK_UNSAFE_LINES += (
        ('extent_path', 'RW 2048 FLAT "a%sddb.x=/etc/shadow" 0' % _sep),
        ('unknown_line', 'whatever this is%sddb.fine = "1"' % _sep),
    )
VMDK_TYPES_OK = ('monolithicSparse', 'streamOptimized', 'MONOLITHICSPARSE',
                 'streamoptimized', 'StreamOptimized')
VMDK_TYPES_BAD = ('monolithicFlat', 'vmfs', 'twoGbMaxExtentSparse',
                  'twoGbMaxExtentFlat', 'fullDevice', 'partitionedDevice',
                  'vmfsSparse', 'custom', '', 'monolithicSparse2',
                  'x' * 70)


@st.composite
def vmdk_lines(draw, safe=True):
    ctype = draw(st.sampled_from(VMDK_TYPES_OK))
    lines = ['# Disk DescriptorFile', 'version=1', 'CID=fffffffe',
             'parentCID=ffffffff', 'createType="%s"' % ctype, '',
             'RW 20480 SPARSE "disk.vmdk"']
    extra = draw(st.lists(st.sampled_from(VMDK_EXTRA_SAFE), max_size=6))
    for e in extra:
        lines.insert(draw(st.integers(1, len(lines))), e)
    if not safe:
        kind = draw(st.sampled_from(['type', 'type_spelling', 'line',
                                     'no_extent', 'mix']))
        if kind in ('type', 'mix'):
            bad = draw(st.sampled_from(VMDK_TYPES_BAD))
            lines = [('createType="%s"' % bad) if ln.startswith('createType')
                     else ln for ln in lines]
        if kind == 'type_spelling':
            sp = draw(st.sampled_from([
                'createType=monolithicSparse', 'createType = "streamOptimized"',
                "createType='monolithicSparse'", 'createtype: "vmfs"',
                '#createType="monolithicSparse"']))
            lines = [sp if ln.startswith('createType') else ln
                     for ln in lines]
        if kind in ('line', 'mix'):
            _t, bad = draw(st.sampled_from(VMDK_UNSAFE_LINES))
            lines.insert(draw(st.integers(1, len(lines))), bad)
        if kind == 'no_extent':
            lines = [ln for ln in lines
                     if ln.split(' ')[0].lower() not in ('rw', 'rdonly',
                                                         'noaccess')]
    return tuple(lines)


FOOTER_PERTURB = (
    dict(sig=b'leak'), dict(version=2), dict(version=0), dict(desc_num=7),
    dict(desc_off=2), dict(gd=g.GD_AT_END), dict(fm_typ=7), dict(fm_typ=0),
    dict(fm_size=1), dict(fm_pad=b'\x01'), dict(eos_typ=3), dict(eos_size=1),
    dict(eos_pad=b'\x01'), dict(eos_val=1),
)


@st.composite
def vmdk_params(draw, safe=None):
    is_safe = bool(safe) or (safe is None and draw(st.booleans()))
    p = dict(lines=draw(vmdk_lines(safe=is_safe)),
             version=draw(st.sampled_from([1, 2, 3])),
             capacity=draw(u64()),
             footer=draw(st.booleans()),
             grain_data=draw(st.sampled_from([0, 1, 1024, 3000])),
             fill=draw(fills),
             newline=draw(st.sampled_from(['\n', '\n', '\r\n'])),
             desc_num=draw(st.sampled_from([None, None, 1, 2, 20])))
    # layout of the descriptor inside its sectors: text that fills them
    # exactly (no NUL behind it), no newline after the last line, the
    # createType line last
    if draw(st.integers(0, 3)) == 0:
        p['exact_fill'] = True
        p['desc_num'] = None
    if draw(st.integers(0, 3)) == 0:
        p['final_newline'] = False
    if draw(st.integers(0, 3)) == 0:
        p['type_last'] = True
    if p['desc_num'] is not None:
        text_len = sum(len(x) + len(p['newline']) for x in p['lines'])
        if p['desc_num'] * 512 < text_len + 1:
            p['desc_num'] = None
    if not is_safe and safe is None and draw(st.integers(0, 3)) == 0:
        kind = draw(st.sampled_from(['footer', 'version', 'desc_off']))
        if kind == 'footer':
            p['footer'] = True
            fo = dict(draw(st.sampled_from(FOOTER_PERTURB)))
            for k, v in list(fo.items()):
                if isinstance(v, bytes):
                    fo[k] = v.decode('latin-1')
            p['footer_over'] = fo
        elif kind == 'version':
            p['version'] = draw(st.sampled_from([0, 4, 5, 2 ** 32 - 1]))
        else:
            p['desc_off'] = draw(st.sampled_from([0, 2, 3, 2 ** 63]))
    return p


@st.composite
def vhdx_params(draw, conformant=True, small=True):
    p = dict(size=draw(u64()),
             region_before=draw(st.sampled_from([0, 0, 1, 2, 5])),
             region_after=draw(st.sampled_from([0, 1, 1, 3])),
             meta_before=draw(st.sampled_from([0, 1, 2, 4, 9])),
             meta_after=draw(st.sampled_from([0, 1, 2, 5])),
             tail=draw(st.sampled_from([0, 0, 1, 4096])),
             fill=draw(st.sampled_from([0, 0, 0, 3])),
             pad=draw(st.sampled_from(['foreign', 'foreign', 'zero', 'ones',
                                       'near'])))
    offs = [256 * KI, 256 * KI, 320 * KI] if small else \
        [256 * KI, MI, 2 * MI, 3 * MI]
    p['meta_offset'] = draw(st.sampled_from(offs))
    p['item_offset'] = draw(st.sampled_from([64 * KI, 64 * KI, 64 * KI + 8,
                                             128 * KI]))
    if draw(st.integers(0, 7)) == 0:
        p['region_before'] = draw(st.sampled_from([100, 2045]))
        p['region_after'] = 0 if p['region_before'] == 2045 else 1
    if draw(st.integers(0, 7)) == 0:
        # 2046 entries before the size item = 2047 in all, the largest
        # table the format allows
        p['meta_before'] = draw(st.sampled_from([100, 2045, 2046]))
        p['meta_after'] = 0 if p['meta_before'] >= 2045 else 1
    p['meta_len'] = draw(st.sampled_from([MI, MI, 2 * MI, 2 ** 32 - 1,
                                           p['item_offset'] + 8]))
    if not conformant:
        kind = draw(st.sampled_from(['count', 'mcount', 'ilen', 'sig',
                                     'msig', 'ioff_in_table', 'meta_low',
                                     'meta_unaligned', 'meta_len']))
        if kind == 'meta_len':
            p['meta_len'] = draw(st.sampled_from(
                [0, 32, 64 * KI, p['item_offset'], p['item_offset'] - 1,
                 p['item_offset'] + 7]))
        if kind == 'count':
            p['region_count'] = draw(st.sampled_from([0, 2047, 2048, 65535,
                                                      2 ** 32 - 1]))
        elif kind == 'mcount':
            p['meta_count'] = draw(st.sampled_from([0, 2047, 2048, 65535]))
        elif kind == 'ilen':
            p['item_length'] = draw(st.sampled_from([0, 1, 7, 9, 4096,
                                                     64 * KI - 1, 64 * KI,
                                                     64 * KI + 1,
                                                     2 ** 32 - 1]))
        elif kind == 'sig':
            p['regi_sig'] = 'rexi'
        elif kind == 'msig':
            p['meta_sig'] = 'metadatb'
        elif kind == 'ioff_in_table':
            p['item_offset'] = draw(st.sampled_from([0, 16, 32, 40, 4096,
                                                     64 * KI - 8]))
        elif kind == 'meta_low':
            p['meta_offset'] = draw(st.sampled_from([0, 32, 4096, 64 * KI,
                                                     192 * KI, 192 * KI + 16,
                                                     256 * KI - 32]))
        else:
            p['meta_offset'] = 256 * KI + draw(st.sampled_from([1, 7, 511,
                                                                 513]))
    return p


def raw_params():
    return st.one_of(
        st.fixed_dictionaries(dict(
            length=st.sampled_from([0, 1, 3, 4, 5, 63, 64, 65, 511, 512, 513,
                                    591, 592, 593, 4096, 34815, 34816,
                                    34817, 70000]),
            kind=st.sampled_from(['zero', 'random', 'ascii']),
            fill=fills)),
        st.fixed_dictionaries(dict(
            length=st.sampled_from([600, 4096, 8000]), kind=st.just('utf8'),
            late=st.sampled_from([2, 10, 62, 63, 64, 65, 100, 510, 511, 512,
                                  513, 598, 3000]),
            fill=fills)))


def params_for(fmt, safe=None):
    if fmt == 'qcow2':
        return qcow2_params(safe)
    if fmt == 'vhd':
        return vhd_params()
    if fmt == 'vdi':
        return vdi_params()
    if fmt == 'qed':
        return qed_params()
    if fmt == 'iso':
        return iso_params(valid=bool(safe))
    if fmt == 'luks':
        return luks_params(safe)
    if fmt == 'gpt':
        return gpt_params(safe)
    if fmt == 'vmdk':
        return vmdk_params(safe)
    if fmt == 'vhdx':
        return vhdx_params(conformant=True if safe else
                           (False if safe is False else True))
    if fmt == 'raw':
        return raw_params()
    raise ValueError(fmt)


# -------------------------------------------------------------- recipes

def realize(recipe):
    """recipe -> (bytes, Img or None).  Pure."""
    if 'bytes' in recipe:
        return bytes.fromhex(recipe['bytes']), None
    if 'overlay' in recipe:
        o = recipe['overlay']
        return g.overlay(o['length'], o['background'], tuple(o['sigs']),
                         o.get('fill', 1), o.get('fat', False),
                         o.get('corrupt')), None
    fmt, params = recipe['base']
    img = g.build(fmt, params)
    data = bytearray(img.data)
    for off, hx in recipe.get('edits') or ():
        b = bytes.fromhex(hx)
        if off < len(data):
            data[off:off + len(b)] = b[:max(0, len(data) - off)]
    if recipe.get('extend'):
        seed, n = recipe['extend']
        data.extend(g.rnd(seed, n))
    if recipe.get('cut') is not None:
        del data[recipe['cut']:]
    return bytes(data), img


@st.composite
def valid_images(draw, fmts=g.FORMATS):
    fmt = draw(st.sampled_from(fmts))
    params = draw(params_for(fmt, safe=True))
    return {'base': [fmt, params], 'kind': 'valid'}


@st.composite
def any_trait_images(draw, fmts=g.FORMATS):
    fmt = draw(st.sampled_from(fmts))
    if fmt == 'vhdx':
        params = draw(vhdx_params(conformant=draw(st.booleans())))
    else:
        params = draw(params_for(fmt, safe=None))
    return {'base': [fmt, params], 'kind': 'traits'}


FIELD_VALUES = (b'\x00', b'\xff', b'\x01', b'\x80', b'\x00' * 4,
                b'\xff' * 4, b'\x00' * 8, b'\xff' * 8,
                b'\x00\x00\x00\x00\x00\x00\x00\x01',
                b'\x01\x00\x00\x00\x00\x00\x00\x00',
                b'\x00\x08\x00\x00', b'\x00\x00\x08\x00')


@st.composite
def mutated_images(draw, fmts=g.FORMATS):
    rec = draw(st.one_of(valid_images(fmts), any_trait_images(fmts)))
    data, img = realize(rec)
    edits = []
    for _ in range(draw(st.integers(1, 3))):
        if img.boundaries and draw(st.integers(0, 4)) > 0:
            off = draw(st.sampled_from(img.boundaries)) - draw(
                st.sampled_from([0, 0, 0, 1, 4, 8]))
            off = max(0, off)
        else:
            off = draw(st.integers(0, max(0, min(len(data), 70000) - 1)))
        val = draw(st.one_of(st.sampled_from(FIELD_VALUES),
                             st.binary(min_size=1, max_size=8)))
        edits.append([off, val.hex()])
    rec = dict(rec, edits=edits, kind='mutated')
    return rec


@st.composite
def truncated_images(draw, fmts=g.FORMATS):
    rec = draw(st.one_of(valid_images(fmts), any_trait_images(fmts)))
    data, img = realize(rec)
    cands = [b + d for b in img.boundaries + [len(data)]
             for d in (-1, 0, 1) if 0 <= b + d <= len(data)]
    cut = draw(st.one_of(st.sampled_from(cands),
                         st.integers(0, len(data))))
    return dict(rec, cut=cut, kind='truncated')


@st.composite
def extended_images(draw, fmts=g.FORMATS):
    rec = draw(valid_images(fmts))
    return dict(rec, extend=[draw(fills),
                             draw(st.sampled_from([1, 511, 512, 1536, 5000]))],
                kind='extended')


LENGTH_POINTS = (4, 6, 8, 32, 64, 68, 512, 592, 34816)


@st.composite
def polyglots(draw):
    base = draw(st.sampled_from(LENGTH_POINTS + (512, 592, 34816, 34816,
                                                 262144, 300000)))
    length = max(0, base + draw(st.sampled_from([-1, 0, 0, 1, 100])))
    sig0 = draw(st.sampled_from([None, 'qcow2', 'qed', 'vhd', 'vhdx', 'vmdk',
                                 'luks']))
    others = draw(st.sets(st.sampled_from(['vdi', 'gpt', 'iso'])))
    sigs = ([sig0] if sig0 else []) + sorted(others)
    o = dict(length=length,
             background=draw(st.sampled_from(['zero', 'random', 'text'])),
             sigs=sigs, fill=draw(fills),
             fat=draw(st.sampled_from([False, False, False, False, True,
                                       'numfats', 'media'])))
    if sigs and draw(st.integers(0, 3)) == 0:
        # near miss: one byte of one signature is wrong
        o['corrupt'] = {draw(st.sampled_from(sigs)): draw(st.integers(0, 7))}
    return {'overlay': o, 'kind': 'polyglot'}


def unstructured():
    return st.one_of(
        st.binary(max_size=700),
        st.text(max_size=700).map(lambda s: s.encode('utf-8', 'replace')),
    ).map(lambda b: {'bytes': b.hex(), 'kind': 'unstructured'})


@st.composite
def field_maxed_images(draw, fmts=g.FORMATS, extend=None):
    """A valid image with 1-3 of the numeric header fields its format
    defines set to hostile values (offsets inside the stream combined with
    huge lengths, maximal counts, ...)."""
    fmts = [f for f in fmts if g.FIELDS.get(f)] or ['qcow2']
    rec = draw(valid_images(fmts))
    fmt = rec['base'][0]
    fields = g.FIELDS[fmt]
    edits = []
    for off, width, order in draw(st.lists(st.sampled_from(fields),
                                           min_size=1, max_size=3,
                                           unique=True)):
        val = draw(st.one_of(st.sampled_from(g.HOSTILE_VALUES),
                             st.integers(0, 2 ** (8 * width) - 1)))
        edits.append([off, g.field_bytes(val, width, order).hex()])
    rec = dict(rec, edits=edits, kind='fieldmax')
    if extend:
        rec['extend'] = [draw(fills), draw(st.sampled_from(extend))]
    return rec


@st.composite
def text_descriptors(draw):
    """Text-only VMDK descriptor files, optionally carrying another
    format's ASCII signature in their first bytes / an ISO signature."""
    lines = list(draw(vmdk_lines(safe=draw(st.booleans()))))
    prefix = draw(st.sampled_from(['', '', 'conectix', 'vhdxfile',
                                   '# conectix', 'KDMV']))
    text = ('\n'.join(lines) + '\n').encode('ascii', 'replace')
    if prefix:
        text = prefix.encode() + b'\n' + text
    pad = draw(st.sampled_from([0, 0, 600, 40000]))
    if pad:
        text = text + b'# pad\n' * (pad // 6)
        if pad == 40000 and draw(st.booleans()):
            text = text[:32769] + b'CD001' + text[32774:]
    return {'bytes': text.hex(), 'kind': 'textdesc'}


@st.composite
def image_plus_sig(draw, fmts=g.FORMATS):
    """A full (valid or hostile) image with another format's signature
    stamped where that format keeps it."""
    rec = draw(st.one_of(valid_images(fmts), any_trait_images(fmts),
                         field_maxed_images(fmts)))
    data, img = realize(rec)
    edits = list(rec.get('edits') or [])
    for name in draw(st.lists(st.sampled_from(['vdi', 'gpt', 'iso']),
                              min_size=1, max_size=2, unique=True)):
        off, sig, _n = g.SIGNATURES[name]
        if off + len(sig) <= len(data) and name != rec['base'][0]:
            edits.append([off, sig.hex()])
    return dict(rec, edits=edits, kind='imgplussig')


def any_content(fmts=g.FORMATS):
    return st.one_of(valid_images(fmts), any_trait_images(fmts),
                     mutated_images(fmts), mutated_images(fmts),
                     truncated_images(fmts), extended_images(fmts),
                     polyglots(), unstructured(), field_maxed_images(fmts),
                     text_descriptors(), image_plus_sig(fmts))
