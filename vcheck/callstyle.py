"""The call interface the checks rely on.

The generated calls of this framework pass arguments positionally in some
places and by keyword in others, as the library's callers do.  Both stay the
same call only while every documented parameter keeps its name and its
position; PINNED records both, per public callable named by a property, as
they are at the pinned commit.  A parameter inserted in front of an existing
one, a renamed or removed parameter, or a documented default that changes is
reported: positional (or keyword) callers would silently pass something else.
New parameters appended at the end with a default are fine.
"""

import importlib
import inspect

from vcheck.core import Violation

# module -> callable -> [(name, default repr or None), ...]
PINNED = {
    'oslo_utils.encodeutils': {
        'safe_decode': [('text', None), ('incoming', 'None'), ('errors', "'strict'")],
        'safe_encode': [('text', None), ('incoming', 'None'), ('encoding', "'utf-8'"), ('errors', "'strict'")],
        'to_utf8': [('text', None)],
    },
    'oslo_utils.excutils': {
        'exception_filter': [('should_ignore_ex', None)],
        'raise_with_cause': [('exc_cls', None), ('message', None)],
        'save_and_reraise_exception': [('reraise', 'True'), ('logger', 'None')],
    },
    'oslo_utils.fileutils': {
        'compute_file_checksum': [('path', None), ('read_chunksize', '65536'), ('algorithm', "'sha256'")],
        'delete_if_exists': [('path', None), ('remove', None)],
        'ensure_tree': [('path', None), ('mode', '511')],
        'last_bytes': [('path', None), ('num', None)],
        'remove_path_on_error': [('path', None), ('remove', None)],
        'write_to_tempfile': [('content', None), ('path', 'None'), ('suffix', "''"), ('prefix', "'tmp'")],
    },
    'oslo_utils.imageutils.format_inspector': {
        'FileInspector': [('tracing', 'False')],
        'FileInspector.eat_chunk': [('chunk', None)],
        'FileInspector.safety_check': [],
        'InspectWrapper': [('source', None), ('expected_format', 'None'), ('allowed_formats', 'None')],
        'detect_file_format': [('filename', None)],
        'get_inspector': [('format_name', None)],
    },
    'oslo_utils.imageutils.qemu': {
        'QemuImgInfo': [('cmd_output', 'None'), ('format', "'human'")],
    },
    'oslo_utils.netutils': {
        'escape_ipv6': [('address', None)],
        'get_ipv6_addr_by_EUI64': [('prefix', None), ('mac', None)],
        'get_mac_addr_by_ipv6': [('ipv6', None), ('dialect', None)],
        'is_valid_cidr': [('address', None)],
        'is_valid_icmp_code': [('code', None)],
        'is_valid_icmp_type': [('type', None)],
        'is_valid_ip': [('address', None)],
        'is_valid_ipv4': [('address', None), ('strict', 'True')],
        'is_valid_ipv6': [('address', None)],
        'is_valid_ipv6_cidr': [('address', None)],
        'is_valid_mac': [('address', None)],
        'is_valid_port': [('port', None)],
        'parse_host_port': [('address', None), ('default_port', 'None')],
        'urlsplit': [('url', None), ('scheme', "''"), ('allow_fragments', 'True')],
    },
    'oslo_utils.specs_matcher': {
        'make_grammar': [],
        'match': [('cmp_value', None), ('spec', None)],
    },
    'oslo_utils.strutils': {
        'bool_from_string': [('subject', None), ('strict', 'False'), ('default', 'False')],
        'check_string_length': [('value', None), ('name', 'None'), ('min_length', '0'), ('max_length', 'None')],
        'int_from_bool_as_string': [('subject', None)],
        'is_int_like': [('val', None)],
        'is_valid_boolstr': [('value', None)],
        'mask_dict_password': [('dictionary', None), ('secret', "'***'")],
        'mask_password': [('message', None), ('secret', "'***'")],
        'split_by_commas': [('value', None)],
        'split_path': [('path', None), ('minsegs', '1'), ('maxsegs', 'None'), ('rest_with_last', 'False')],
        'string_to_bytes': [('text', None), ('unit_system', "'IEC'"), ('return_int', 'False')],
        'to_slug': [('value', None), ('incoming', 'None'), ('errors', "'strict'")],
        'validate_integer': [('value', None), ('name', None), ('min_value', 'None'), ('max_value', 'None')],
    },
    'oslo_utils.timeutils': {
        'StopWatch': [('duration', 'None')],
        'StopWatch.elapsed': [('maximum', 'None')],
        'StopWatch.leftover': [('return_none', 'False')],
        'advance_time_delta': [('timedelta', None)],
        'advance_time_seconds': [('seconds', None)],
        'delta_seconds': [('before', None), ('after', None)],
        'is_newer_than': [('after', None), ('seconds', None)],
        'is_older_than': [('before', None), ('seconds', None)],
        'is_soon': [('dt', None), ('window', None)],
        'marshall_now': [('now', 'None')],
        'normalize_time': [('timestamp', None)],
        'parse_isotime': [('timestr', None)],
        'set_time_override': [('override_time', 'None')],
        'unmarshall_time': [('tyme', None)],
        'utcnow': [('with_timezone', 'False')],
        'utcnow_ts': [('microsecond', 'False')],
    },
    'oslo_utils.uuidutils': {
        'generate_uuid': [('dashed', 'True')],
        'is_uuid_like': [('val', None)],
    },
    'oslo_utils.versionutils': {
        'VersionPredicate': [('predicate_str', None)],
        'VersionPredicate.satisfied_by': [('version_str', None)],
        'convert_version_to_int': [('version', None)],
        'convert_version_to_str': [('version_int', None)],
        'convert_version_to_tuple': [('version_str', None)],
        'is_compatible': [('requested_version', None), ('current_version', None), ('same_major', 'True')],
    },
}



def check(col, module, names=None, sub='interface'):
    """Compare the live signatures of `module`'s pinned callables."""
    mod = importlib.import_module(module)
    for fn in sorted(PINNED[module]):
        if names is not None and fn not in names:
            continue
        want = PINNED[module][fn]
        obj = mod
        try:
            for part in fn.split('.'):
                obj = getattr(obj, part)
            sig = inspect.signature(obj)
        except (AttributeError, TypeError, ValueError) as e:
            raise Violation(sub, '%s.%s is gone or has no signature: %r'
                            % (module, fn, e),
                            {'interface': [module, fn]})
        got = [(n, p) for n, p in sig.parameters.items() if n != 'self']
        case = {'interface': [module, fn]}
        col.case(sub, (module, fn), True, 'signature', case)
        for i, (name, default) in enumerate(want):
            if i >= len(got) or got[i][0] != name or got[i][1].kind not in (
                    inspect.Parameter.POSITIONAL_OR_KEYWORD,):
                raise Violation(
                    sub, '%s.%s: parameter %d is %s, callers pass %r there '
                    '(positionally and by that keyword)'
                    % (module, fn, i + 1,
                       got[i][0] if i < len(got) else 'missing', name), case)
            p = got[i][1]
            has = p.default is not inspect.Parameter.empty
            if (default is None) == has and default is not None:
                raise Violation(sub, '%s.%s: %s lost its default'
                                % (module, fn, name), case)
            if default is None and has:
                continue        # a new default on a required parameter: fine
            if default is not None and repr(p.default) != default:
                raise Violation(sub, '%s.%s: default of %s is %r, documented '
                                '%s' % (module, fn, name, p.default, default),
                                case)
        for name, p in got[len(want):]:
            if p.default is inspect.Parameter.empty and p.kind in (
                    inspect.Parameter.POSITIONAL_OR_KEYWORD,
                    inspect.Parameter.KEYWORD_ONLY):
                raise Violation(sub, '%s.%s: new required parameter %s'
                                % (module, fn, name), case)
    col.exhaustive[sub] = True
