"""Schedules: ways of cutting a stream of n bytes into chunks.

A schedule is JSON-able: ['fixed', k] (chunks of k bytes) or ['sizes', [...]]
(explicit chunk sizes, zeros are empty chunks; sizes sum to n).
"""

from hypothesis import strategies as st

FIXED = (1, 2, 3, 7, 17, 512, 513, 4096, 65536, 1 << 20)


def sizes_of(schedule, n):
    kind, arg = schedule
    if kind == 'fixed':
        k = max(1, int(arg))
        out = [k] * (n // k)
        if n % k:
            out.append(n % k)
        return out
    return list(arg)


def chunks(data, schedule):
    pos = 0
    for sz in sizes_of(schedule, len(data)):
        yield data[pos:pos + sz]
        pos += sz


def from_cuts(n, cuts, empties=()):
    """cuts: positions strictly inside (0, n); empties: indices (into the
    resulting list, applied left to right) where an empty chunk is put."""
    pts = sorted({c for c in cuts if 0 < c < n})
    sizes = []
    prev = 0
    for c in pts + [n]:
        sizes.append(c - prev)
        prev = c
    if n == 0:
        sizes = []
    for e in sorted(empties):
        sizes.insert(min(e, len(sizes)), 0)
    return ['sizes', sizes]


def cut_positions(schedule, n):
    pos = 0
    out = []
    for sz in sizes_of(schedule, n):
        pos += sz
        if sz and pos < n:
            out.append(pos)
    return out


def near_boundary(schedule, n, boundaries):
    cuts = set(cut_positions(schedule, n))
    return any((b + d) in cuts for b in boundaries for d in (-1, 0, 1))


def nonempty_chunks(schedule, n):
    return sum(1 for s in sizes_of(schedule, n) if s)


def boundary_cut_candidates(n, boundaries):
    out = []
    for b in boundaries:
        for d in (-1, 0, 1):
            if 0 < b + d < n:
                out.append(b + d)
    return sorted(set(out))


@st.composite
def schedules(draw, n, boundaries=(), allow_tiny=True, max_chunks=4096):
    """A schedule for a stream of n bytes aimed at `boundaries`."""
    if n == 0:
        return ['sizes', [0] * draw(st.integers(0, 3))]
    cands = boundary_cut_candidates(n, boundaries)
    kinds = ['giant', 'fixed', 'random']
    if cands:
        kinds += ['b1', 'b1', 'b2', 'b2', 'bmany']
    kind = draw(st.sampled_from(kinds))
    if kind == 'giant':
        sched = ['sizes', [n]]
    elif kind == 'fixed':
        ks = [k for k in FIXED if n / k <= max_chunks and
              (allow_tiny or k >= 512)]
        if not ks:
            ks = [max(1, -(-n // max_chunks))]
        return ['fixed', draw(st.sampled_from(ks))]
    elif kind == 'random':
        m = draw(st.integers(1, 12))
        cuts = draw(st.lists(st.integers(1, max(1, n - 1)), min_size=0,
                             max_size=m))
        sched = from_cuts(n, cuts)
    elif kind == 'b1':
        sched = from_cuts(n, [draw(st.sampled_from(cands))])
    elif kind == 'b2':
        sched = from_cuts(n, [draw(st.sampled_from(cands)),
                              draw(st.sampled_from(cands))])
    else:
        cuts = draw(st.lists(st.sampled_from(cands), min_size=1, max_size=8))
        extra = draw(st.lists(st.integers(1, max(1, n - 1)), max_size=3))
        sched = from_cuts(n, cuts + extra)
    if draw(st.integers(0, 3)) == 0:
        sizes = list(sched[1])
        for _ in range(draw(st.integers(1, 3))):
            sizes.insert(draw(st.integers(0, len(sizes))), 0)
        sched = ['sizes', sizes]
    return sched
