"""Independent model of "format F's signature is present in this content",
written from the format documents (not from the inspectors).

sig(fmt, data) -> 'present' | 'absent' | 'marginal'

marginal: the magic bytes are there but the file ends before the structure the
format defines around them (e.g. 100 bytes starting with 'conectix'), or the
content is in the recorded-finding class where VMDK's text-descriptor mode
makes the answer chunk dependent.  The properties leave marginal content
open; only 'present' and 'absent' are ever used for must-hold verdicts.
"""

import struct

KI = 1024

_AT0 = {
    'qcow2': (b'QFI\xfb', 512),
    'qed': (b'QED\x00', 512),
    'vhd': (b'conectix', 512),
    'vhdx': (b'vhdxfile', 256 * KI),
    'vmdk': (b'KDMV', 512),
    'luks': (b'LUKS\xba\xbe', 592),
}
NON_RAW = ('qcow2', 'qed', 'vhd', 'vhdx', 'vmdk', 'luks', 'vdi', 'gpt',
           'iso')


def _is_text_byte(b):
    return b < 128 and (chr(b).isprintable() or chr(b).isspace())


def vmdk_text_mode(data):
    if data[:4] == b'KDMV' or not data:
        return False
    return all(_is_text_byte(b) for b in data[:64])


def sig(fmt, data):
    n = len(data)
    if fmt == 'raw':
        return 'present'
    if fmt in _AT0:
        magic, need = _AT0[fmt]
        if fmt == 'vmdk' and vmdk_text_mode(data):
            # a text descriptor can only ever be named through its
            # createType="..." line (case-insensitive, somewhere in the
            # text); prose without one carries no vmdk signature at all
            if b'createtype="' in data.lower():
                return 'marginal'
            return 'absent'
        if data[:len(magic)] != magic:
            return 'absent'
        return 'present' if n >= need else 'marginal'
    if fmt == 'vdi':
        if n < 0x44 or struct.unpack('<I', data[0x40:0x44])[0] != 0xbeda107f:
            return 'absent'
        return 'present' if n >= 512 else 'marginal'
    if fmt == 'gpt':
        if n < 512 or data[510:512] != b'\x55\xaa':
            return 'absent'
        if data[0x10] == 2 and data[0x15] == 0xF8:
            return 'absent'          # FAT boot sector look-alike
        return 'present'
    if fmt == 'iso':
        if n < 32774 or data[32769:32774] not in (b'CD001', b'NSR02',
                                                   b'NSR03'):
            return 'absent'
        return 'present' if n >= 34 * KI else 'marginal'
    raise ValueError(fmt)


def classify(data, allowed=None):
    """(definite, marginal) sets of non-raw formats, restricted to allowed."""
    d, m = set(), set()
    for f in NON_RAW:
        if allowed is not None and f not in allowed:
            continue
        s = sig(f, data)
        if s == 'present':
            d.add(f)
        elif s == 'marginal':
            m.add(f)
    return d, m
