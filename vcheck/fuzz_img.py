"""Atheris (libFuzzer) targets for the image-inspector properties.

Run as a subprocess by the thorough tiers of C01 / C03 / C05:

    python -m vcheck.fuzz_img --target c01 --out FILE --corpus DIR \
        [--seeds small|vhdx] -- -runs=N -seed=S -max_len=L ...

The semantic oracle is inside the target (the same oracle functions the
Hypothesis sub-checks use); a violation is written to FILE as a replay record
and the process exits with status 77.  No state survives an iteration: every
iteration builds fresh inspectors.
"""

import argparse
import json
import os
import sys


def decode(data):
    """bytes -> (content bytes, schedule).  The first bytes choose the
    schedule so that the rest stays a plain image the mutator can work on."""
    if len(data) < 4:
        return data, ['fixed', 512]
    mode = data[0] % 6
    a = int.from_bytes(data[1:3], 'little')
    b = data[3]
    content = data[4:]
    n = len(content)
    if n == 0:
        return content, ['sizes', []]
    if mode == 0:
        sched = ['sizes', [n]]
    elif mode == 1:
        sched = ['fixed', (1, 2, 3, 7, 17, 64, 511, 513, 4096)[b % 9]]
        if n / sched[1] > 1500:
            sched = ['fixed', max(64, -(-n // 1500))]
    elif mode == 2:
        c = 1 + a % max(1, n - 1) if n > 1 else 1
        sched = ['sizes', [min(c, n), n - min(c, n)]]
    elif mode == 3:
        # a cut near a structure boundary
        pts = (4, 8, 32, 64, 72, 104, 512, 592, 1024, 1536, 32768, 34816,
               196608, 262144)
        p = pts[b % len(pts)] + (a % 3) - 1
        p = max(1, min(n - 1, p)) if n > 1 else 1
        sched = ['sizes', [min(p, n), n - min(p, n)]]
    elif mode == 4:
        c1 = 1 + a % max(1, n)
        c2 = 1 + (a * 31 + b) % max(1, n)
        lo, hi = sorted((min(c1, n), min(c2, n)))
        sched = ['sizes', [lo, 0, hi - lo, n - hi]]
    else:
        k = 1 + b % 8
        step = max(1, n // k)
        sizes = [step] * (n // step)
        if n % step:
            sizes.append(n % step)
        sched = ['sizes', sizes]
    return content, sched


def encode(content, mode=1, a=0, b=5):
    return bytes([mode]) + a.to_bytes(2, 'little') + bytes([b]) + content


def seeds(kind):
    from vcheck import imggen
    out = []
    if kind == 'vhdx':
        out.append(imggen.build_vhdx().data)
        out.append(imggen.build_vhdx(meta_before=3, region_before=1).data)
        return out
    for fmt in ('qcow2', 'vhd', 'vdi', 'qed', 'gpt', 'luks'):
        out.append(imggen.BUILDERS[fmt]().data[:2048])
    out.append(imggen.build_vmdk().data)
    out.append(imggen.build_vmdk(footer=True).data)
    out.append(imggen.build_iso(tail=0).data)
    out.append(imggen.build_raw(600, 'ascii').data)
    out.append(imggen.build_raw(700, 'utf8', late=100).data)
    return out


def main():
    ap = argparse.ArgumentParser()
    ap.add_argument('--target', required=True, choices=['c01', 'c03', 'c05'])
    ap.add_argument('--out', required=True)
    ap.add_argument('--corpus', required=True)
    ap.add_argument('--seeds', default='small')
    ap.add_argument('--stats', default=None)
    ap.add_argument('rest', nargs='*')
    args = ap.parse_args()

    from vcheck import core
    core.bootstrap()
    import atheris
    with atheris.instrument_imports(include=['oslo_utils.imageutils']):
        from oslo_utils.imageutils import format_inspector  # noqa
    from vcheck.props import c01, c03, c05

    os.makedirs(args.corpus, exist_ok=True)
    if args.seeds != 'empty':
        for i, s in enumerate(seeds(args.seeds)):
            for mode in (0, 1, 3):
                with open(os.path.join(args.corpus, 'seed-%d-%d' % (i, mode)),
                          'wb') as f:
                    f.write(encode(s, mode=mode, b=5 + i))

    col = core.Collector()
    stats = {'execs': 0}

    def fail(v):
        rec = v.record()
        rec['property'] = args.target.upper()
        with open(args.out, 'w') as f:
            json.dump(rec, f, default=repr)
        _write_stats()
        os._exit(77)

    def _write_stats():
        if args.stats:
            with open(args.stats, 'w') as f:
                json.dump({'execs': stats['execs'],
                           'evaluations': col.evaluations,
                           'nontrivial': len(col.nontrivial),
                           'classes': dict(col.classes),
                           'known': dict(col.excluded_known),
                           'unspecified': dict(col.unspecified)}, f)

    def one(data):
        stats['execs'] += 1
        content, sched = decode(bytes(data))
        case = {'content': {'bytes': content.hex(), 'kind': 'fuzz'},
                'schedule': sched, 'queries': None}
        try:
            if args.target == 'c01':
                c01.check_inspectors(col, case, sub='atheris')
            elif args.target == 'c03':
                c03.check_detection(col, dict(case, allowed=None,
                                              mode='read'), sub='atheris')
            else:
                c05.check_bound(col, dict(case, wrapper=False),
                                sub='atheris')
        except core.Violation as v:
            fail(v)
        if stats['execs'] % 100 == 0:
            _write_stats()

    import atexit  # noqa (atexit does not run under libFuzzer; stats file
    #               is refreshed periodically instead)
    atheris.Setup([sys.argv[0]] + args.rest + [args.corpus], one)
    atheris.Fuzz()


if __name__ == '__main__':
    main()
