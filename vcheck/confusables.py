"""Non-ASCII code points that some text transformation maps onto ASCII.

A validator that lower()s, casefold()s, normalises, or hands text to int()
or float() can be talked into accepting a string that is not in its grammar:
U+FB00 casefolds to 'ff', U+017F to 's', U+212A to 'k', fullwidth and
Arabic-Indic digits are decimal digits for int(), NFKC folds fullwidth
punctuation.  This module enumerates those code points once (a pure function
of the interpreter's Unicode tables) and substitutes them into otherwise
valid strings.  It makes no claim about what the code under test should
answer - the calling check's oracle does that.
"""

import functools
import unicodedata

VIAS = ('lower', 'casefold', 'upper', 'title', 'NFKC', 'NFKD', 'decimal',
        'digit', 'numeric')


def _ascii_printable(y):
    return bool(y) and all(' ' <= c <= '~' for c in y)


@functools.lru_cache(maxsize=None)
def table():
    """{ascii target string: [(char, via), ...]} sorted by code point."""
    out = {}
    for cp in range(0x80, 0x30000):
        if 0xD800 <= cp <= 0xDFFF:
            continue
        x = chr(cp)
        seen = set()
        for via in VIAS:
            try:
                if via == 'lower':
                    y = x.lower()
                elif via == 'casefold':
                    y = x.casefold()
                elif via == 'upper':
                    y = x.upper()
                elif via == 'title':
                    y = x.title()
                elif via in ('NFKC', 'NFKD'):
                    y = unicodedata.normalize(via, x)
                elif via == 'decimal':
                    y = str(unicodedata.decimal(x))
                elif via == 'digit':
                    y = str(unicodedata.digit(x))
                else:
                    v = unicodedata.numeric(x)
                    if v != int(v) or not 0 <= v <= 9:
                        continue
                    y = str(int(v))
            except ValueError:
                continue
            if y == x or not _ascii_printable(y):
                continue
            if (y, via) in seen:
                continue
            seen.add((y, via))
            out.setdefault(y, []).append((x, via))
    return out


@functools.lru_cache(maxsize=None)
def by_target_ci():
    """Same table keyed by the lower-cased ASCII target."""
    out = {}
    for y, xs in table().items():
        out.setdefault(y.lower(), []).extend(xs)
    return out


def picks(target, per_via=2):
    """A small deterministic selection of confusables for `target` (matched
    case-insensitively): the first `per_via` code points of each via."""
    n = {}
    got = []
    seen = set()
    for x, via in by_target_ci().get(target.lower(), ()):
        if n.get(via, 0) >= per_via or x in seen:
            continue
        n[via] = n.get(via, 0) + 1
        seen.add(x)
        got.append((x, via))
    return got


def substitutions(s, per_via=2, max_target_len=3):
    """Yield (mutated string, via, position) with exactly one substring of
    `s` replaced by a non-ASCII code point that maps onto it."""
    done = set()
    for i in range(len(s)):
        for ln in range(1, max_target_len + 1):
            t = s[i:i + ln]
            if len(t) < ln:
                break
            for x, via in picks(t, per_via):
                m = s[:i] + x + s[i + ln:]
                if m in done:
                    continue
                done.add(m)
                yield m, via, i


# Text that is harmless as data and explosive when an error path, a log line
# or a template interpolates it a second time: printf conversions, str.format
# fields, regex replacement references.
FORMAT_TOKENS = ('%s', '%d', '50%d', '%(k)s', '%(size)d', '%', '%%', '{}',
                 '{0}', '{k}', 'a%sb', '%r', '%5.2f', '%5d', '%c', '%x', '%(',
                 '%)', '\\1', '\\g<0>', '\\', '$1', '${k}')
