"""python -m vcheck <ID> [--tier quick|thorough] [--replay FILE]"""

import argparse
import glob
import importlib
import json
import os
import sys
import time
import traceback


def _reexec_with_fixed_hashseed():
    if os.environ.get('PYTHONHASHSEED') != '0':
        env = dict(os.environ, PYTHONHASHSEED='0')
        os.execve(sys.executable, [sys.executable, '-m', 'vcheck'] +
                  sys.argv[1:], env)


def main(argv=None):
    ap = argparse.ArgumentParser(prog='vcheck')
    ap.add_argument('prop')
    ap.add_argument('--tier', choices=['quick', 'thorough'], default=None)
    ap.add_argument('--replay', default=None)
    ap.add_argument('--budget', type=float, default=None,
                    help='soft wall-clock budget in seconds')
    ap.add_argument('--only', default=None,
                    help='comma list of sub-check name prefixes to run')
    args = ap.parse_args(argv)
    prop = args.prop.upper()
    tier = args.tier or os.environ.get('VERIF_TIER') or 'quick'
    if tier not in ('quick', 'thorough'):
        tier = 'quick'
    try:
        seed = int(os.environ.get('VERIF_SEED', '1'))
    except ValueError:
        seed = 1

    from vcheck import core
    try:
        core.bootstrap()
        mod = importlib.import_module('vcheck.props.%s' % prop.lower())
    except Exception:
        traceback.print_exc()
        print('HARNESS-ERROR property=%s (bootstrap/import)' % prop)
        return 2

    if args.replay:
        with open(args.replay) as f:
            rec = json.load(f)
        flags = (rec.get('case') or {}).get('python_flags') \
            if isinstance(rec.get('case'), dict) else None
        if flags and '-O' in flags and not sys.flags.optimize:
            os.execve(sys.executable, [sys.executable, '-O', '-m', 'vcheck'] +
                      sys.argv[1:], dict(os.environ))
        try:
            pair = (rec.get('case') or {}).get('preempt_pair') \
                if isinstance(rec.get('case'), dict) else None
            iface = (rec.get('case') or {}).get('interface') \
                if isinstance(rec.get('case'), dict) else None
            if isinstance(rec.get('case'), dict) and \
                    rec['case'].get('arg_subclass'):
                from vcheck import argtypes
                argtypes.ACTIVE[0] = True
            if iface:
                from vcheck import callstyle
                callstyle.check(core.Collector(), iface[0], [iface[1]])
            elif pair and getattr(mod, 'PREEMPT_MODULES', None):
                core.preempt_pair(core.Collector(), prop,
                                  mod.PREEMPT_MODULES, pair[0], pair[1])
            else:
                mod.replay(rec)
        except core.Violation as v:
            print('replay: %s' % v)
            print('VIOLATION property=%s replay=%s' % (prop, args.replay))
            return 1
        except Exception:
            traceback.print_exc()
            print('HARNESS-ERROR property=%s (replay)' % prop)
            return 2
        print('replay holds: %s' % args.replay)
        return 0

    t0 = time.monotonic()
    budget = args.budget
    if budget is None:
        env_b = os.environ.get('VERIF_BUDGET_S')
        budget = float(env_b) if env_b else mod.BUDGET[tier]

    known = core.load_known_findings(prop)
    open_known = [e for e in known if e.get('status') == 'open']
    predicates = getattr(mod, 'KNOWN', {})
    for e in open_known:
        if e['match'] not in predicates:
            print('HARNESS-ERROR property=%s unknown predicate %s'
                  % (prop, e['match']))
            return 2

    violations = []      # (rec, path)
    reproduced = {}      # finding id -> count

    def classify(rec, path=None):
        for e in open_known:
            try:
                hit = predicates[e['match']](rec)
            except Exception:
                hit = False
            if hit:
                reproduced[e['id']] = reproduced.get(e['id'], 0) + 1
                return
        violations.append((rec, path))

    try:
        # 1. regression tier: saved cases (fixed findings must pass; recorded
        #    open findings are probed)
        reg_dir = os.path.join(core.VERIF_DIR, 'replays', 'regress', prop)
        n_reg = 0
        for path in sorted(glob.glob(os.path.join(reg_dir, '*.json'))):
            with open(path) as f:
                rec = json.load(f)
            n_reg += 1
            try:
                mod.replay(rec)
            except core.Violation as v:
                r = v.record()
                r.setdefault('case', rec.get('case'))
                classify(r, path)

        # 2. generated search
        tasks = mod.tasks(tier, seed)
        if args.only:
            # comma list of sub-check name prefixes; 'name#N' keeps only
            # the first N tasks with that prefix
            keep = []
            for spec in args.only.split(','):
                pre, _, lim = spec.partition('#')
                hit = [t for t in tasks if t.sub.startswith(pre)
                       and t not in keep]
                keep.extend(hit[:int(lim)] if lim else hit)
            tasks = [t for t in tasks if t in keep]
        if getattr(mod, 'SUBCLASS_SUBS', None) and not args.only and \
                not os.environ.get('VERIF_CHILD'):
            # the named deterministic sub-checks once more with str / int
            # arguments passed as subclass instances
            extra = []
            for spec in mod.SUBCLASS_SUBS:
                pre, _, lim = spec.partition('#')
                hit = [t for t in tasks if t.sub.startswith(pre)]
                for t in (hit[:int(lim)] if lim else hit):
                    extra.append(core.Task(
                        'subclass-args', core.with_subclass_args,
                        inner_fn=t.fn, inner_kwargs=t.kwargs,
                        inner_sub=t.sub))
            tasks = tasks + extra
        if getattr(mod, 'INTERFACE', None) and not args.only:
            from vcheck import callstyle
            for m_, names_ in mod.INTERFACE:
                tasks.insert(0, core.Task('interface', callstyle.check,
                                          module=m_, names=names_))
        if args.only:
            pass
        elif getattr(mod, 'OPT_SUBS', None) and \
                not os.environ.get('VERIF_CHILD'):
            # ambient interpreter configuration: the cheap deterministic
            # sub-checks once more under `python -O`
            tasks.insert(0, core.Task('python-O', core.optimized_child,
                                      prop=prop, subs=list(mod.OPT_SUBS)))
        col, timings = core.run_tasks(tasks, budget_s=budget)
        if getattr(mod, 'PREEMPT_MODULES', None) and not args.only and \
                not os.environ.get('VERIF_CHILD'):
            # schedules: pairs of cases this run has judged, one suspended
            # at every line of the code under test while the other runs
            ptasks = core.preempt_tasks(
                col, prop, mod.PREEMPT_MODULES, seed,
                pairs=8 if tier == 'quick' else 64)
            if ptasks:
                pcol, ptimes = core.run_tasks(ptasks, budget_s=budget)
                col.merge(pcol.dump())
                timings = sorted(timings + ptimes)
                tasks = tasks + ptasks
        for rec in col.failures:
            classify(rec)
    except core.HarnessError as e:
        print(e)
        print('HARNESS-ERROR property=%s' % prop)
        return 2
    except Exception:
        traceback.print_exc()
        print('HARNESS-ERROR property=%s' % prop)
        return 2

    # keep the smallest few failing cases per sub-check as replay files
    by_sub = {}
    for rec, path in violations:
        by_sub.setdefault(rec['sub'], []).append((rec, path))
    violations = []
    for sub in sorted(by_sub):
        lst = sorted(by_sub[sub], key=lambda rp: (
            rp[1] is None, len(json.dumps(rp[0]['case'], default=repr))))
        for rec, path in lst[:3]:
            if path is None:
                path = core.write_replay(prop, rec)
            violations.append((rec, path))
    n_failing = sum(len(v) for v in by_sub.values())

    wall = time.monotonic() - t0
    extra = {
        'regress_replays': n_reg,
        'known_findings_reproduced': reproduced,
        'tasks': len(tasks),
        'failing_cases_seen': n_failing,
        'slowest_tasks': [[s, round(t, 2)] for _i, s, t in
                          sorted(timings, key=lambda x: -x[2])[:5]],
        'nproc': core.NPROC,
        'repo': core.REPO,
    }
    if hasattr(mod, 'evidence_extra'):
        extra.update(mod.evidence_extra(col))
    core.write_evidence(prop, tier, seed, mod.LEVEL, col, wall,
                        len(violations), mod.RULE, mod.ASSUMPTIONS, extra)

    for e in open_known:
        print('KNOWN-FINDING: property=%s %s %s (reproduced %d time(s) in '
              'this run)' % (prop, e['id'], e['what'],
                             reproduced.get(e['id'], 0)))
    for label, n in sorted(col.seam_unreachable.items()):
        print('WARNING property=%s seam not reached: %s x%d'
              % (prop, label, n), file=sys.stderr)
    print('%s tier=%s seed=%d evaluations=%d distinct_nontrivial=%d '
          'unspecified=%d violations=%d wall=%.1fs'
          % (prop, tier, seed, col.evaluations,
             len(col.nontrivial) + col.distinct_extra,
             sum(col.unspecified.values()), len(violations), wall))
    if violations:
        seen = set()
        for rec, path in violations:
            if path in seen:
                continue
            seen.add(path)
            print('  %s: %s' % (rec['sub'], rec['msg'][:300]))
            print('VIOLATION property=%s replay=%s' % (prop, path))
        return 1
    return 0


if __name__ == '__main__':
    _reexec_with_fixed_hashseed()
    sys.exit(main())
