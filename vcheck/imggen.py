"""Disk images built from their published layouts, with ground truth.

Every builder is a pure function of a plain parameter record (so a case is
JSON-able and replayable) and returns an ``Img`` carrying the bytes and what
is true about them *by construction*: declared virtual size, structure
boundaries (for aiming chunk cuts), where the size field and the structure
the inspector needs end, and which unsafe traits the statement of C02 lists
are present.  Builders follow the format documents quoted in the comments of
format_inspector.py, not its code.
"""

import random
import struct
import uuid

KI = 1024
MI = 1024 * 1024
FORMATS = ('raw', 'qcow2', 'vhd', 'vhdx', 'vmdk', 'vdi', 'qed', 'iso', 'gpt',
           'luks')


def rnd(seed, n):
    """Deterministic filler bytes (pure function of its arguments)."""
    if n <= 0:
        return b''
    return random.Random(seed).randbytes(n)


class Img:
    def __init__(self, fmt, data, params, vsize=None, boundaries=(),
                 size_field_end=None, struct_end=None, unsafe=(),
                 clean=None, note=None):
        self.fmt = fmt
        self.data = bytes(data)
        self.params = params
        self.vsize = vsize
        self.boundaries = sorted({b for b in boundaries
                                  if 0 < b < len(self.data)})
        self.size_field_end = size_field_end
        self.struct_end = struct_end
        self.unsafe = frozenset(unsafe)
        # clean: well-formed, complete, no unsafe trait => must be accepted
        self.clean = (not self.unsafe) if clean is None else clean
        self.note = note

    def brief(self):
        return {'fmt': self.fmt, 'len': len(self.data), 'params': self.params,
                'unsafe': sorted(self.unsafe), 'vsize': self.vsize}


# --------------------------------------------------------------------- qcow2

QCOW2_KNOWN_SAFE_BITS = (0, 1, 3)       # dirty, corrupt, compression type
QCOW2_DATAFILE_BIT = 2


def build_qcow2(version=3, size=10 * MI, bf_offset=0, bf_size=0, features=0,
                length=1024, fill=1, cluster_bits=16, compat=0, autoclear=0,
                v2_tail_zero=True):
    hdr = struct.pack('>4sIQIIQIIQQIIQ', b'QFI\xfb', version & 0xffffffff,
                      bf_offset, bf_size, cluster_bits, size,
                      0, 1, 0x30000, 0x10000, 1, 0, 0)
    assert len(hdr) == 72
    if version == 2 and v2_tail_zero:
        # v2 headers end at byte 72; what follows is not a feature word
        ext = b'\x00' * 32
    else:
        ext = struct.pack('>QQQII', features, compat, autoclear, 4, 104)
    body = rnd(fill, max(0, length - 104))
    data = (hdr + ext + body)[:length]
    unsafe = set()
    murky = False
    if bf_offset != 0:
        unsafe.add('backing_file')
    if version not in (2, 3):
        unsafe.add('version')
    if version == 3:
        if features & (1 << QCOW2_DATAFILE_BIT):
            unsafe.add('data_file')
        if features >> 4:
            unsafe.add('unknown_features')
    elif not (version == 2 and v2_tail_zero) and features:
        # a feature word on a header version that has none: the statement
        # does not say how bytes 72..79 of such a header are to be read
        murky = True
    complete = length >= 512
    return Img('qcow2', data,
               dict(version=version, size=size, bf_offset=bf_offset,
                    bf_size=bf_size, features=features, length=length,
                    fill=fill, cluster_bits=cluster_bits,
                    v2_tail_zero=v2_tail_zero),
               vsize=size, boundaries=(4, 8, 16, 24, 32, 72, 80, 104, 512),
               size_field_end=32, struct_end=512, unsafe=unsafe,
               clean=(not unsafe) and complete and not murky,
               note='feature word on a v%d header' % version if murky
               else None)


# ----------------------------------------------------------------------- qed

def build_qed(length=1024, fill=1):
    data = (b'QED\x00' + rnd(fill, max(0, length - 4)))[:length]
    return Img('qed', data, dict(length=length, fill=fill), vsize=None,
               boundaries=(4, 512), struct_end=512, unsafe={'qed'},
               clean=False)


# ----------------------------------------------------------------------- vhd

def build_vhd(size=10 * MI, length=1024, fill=1):
    foot = bytearray(rnd(fill, 512))
    foot[0:8] = b'conectix'
    foot[40:48] = struct.pack('>Q', size)
    data = (bytes(foot) + rnd(fill + 1, max(0, length - 512)))[:length]
    return Img('vhd', data, dict(size=size, length=length, fill=fill),
               vsize=size, boundaries=(8, 40, 48, 512), size_field_end=48,
               struct_end=512, clean=length >= 512)


# ---------------------------------------------------------------------- vhdx

VHDX_METAREGION = '8B7CA206-4790-4B9A-B8FE-575F050F886E'
VHDX_BAT = '2DC27766-F623-4200-9D64-115E9BFD4A08'
VHDX_VDS = '2FA54224-CD1B-4876-B211-5DBED83BF4B8'
VHDX_FILE_PARAMS = 'CAA16737-FA36-4D43-B3B6-33F0AA44E76B'
VHDX_LSS = '8141BF1D-A96F-4709-BA47-F233A8FAAB5F'
VHDX_PSS = 'CDA348C7-445D-4471-9CC9-E9885251C556'
VHDX_PAGE83 = 'BECA12AB-B2E6-4523-93EF-C309E000C746'
VHDX_PARENT_LOCATOR = 'A8D35F2D-B30B-454D-ABF7-D3D84834AB0C'
_FOREIGN_META = (VHDX_FILE_PARAMS, VHDX_LSS, VHDX_PSS, VHDX_PAGE83,
                 VHDX_PARENT_LOCATOR)


def _guid(s):
    return uuid.UUID(s).bytes_le


def _foreign_guid(i, pad='foreign'):
    # GUIDs that are neither the metadata region nor the size item
    if pad == 'zero':
        return bytes(16)                    # unused slot
    if pad == 'ones':
        return b'\xff' * 16
    if pad == 'near':
        # differs from the wanted GUIDs in one byte only
        g = bytearray(_guid(VHDX_VDS if i % 2 else VHDX_METAREGION))
        g[i % 16] ^= 0x01
        return bytes(g)
    return uuid.UUID(int=(0x1000 + i) << 64 | 0xabcdef).bytes_le


def build_vhdx(size=10 * MI, meta_offset=256 * KI, region_before=0,
               region_after=1, region_count=None, meta_before=1, meta_after=2,
               meta_count=None, item_offset=64 * KI, item_length=8, tail=0,
               fill=0, regi_sig=b'regi', meta_sig=b'metadata',
               ident=b'vhdxfile', pad='foreign', meta_len=MI,
               pad_item_length=4):
    """A VHDX whose header area, region table and metadata region follow the
    MS-VHDX layout.  ``fill`` != 0 fills every byte the format leaves free
    with filler (0 = zeros, as qemu-img writes them)."""
    n_region = region_before + 1 + region_after
    n_meta = meta_before + 1 + meta_after
    item_end = meta_offset + item_offset + 8
    table_end = meta_offset + 32 + 32 * n_meta
    total = max(item_end, table_end, 256 * KI) + tail
    if fill:
        buf = bytearray(rnd(fill, total))
    else:
        buf = bytearray(total)
    # file type identifier (64 KiB, signature + UTF-16 creator)
    buf[0:8] = ident
    buf[8:8 + 32] = 'vcheck imggen'.encode('utf-16-le').ljust(32, b'\0')
    # two headers at 64K / 128K (not read by the inspector)
    for off in (64 * KI, 128 * KI):
        buf[off:off + 4] = b'head'
    # region table at 192 KiB
    rt = 192 * KI
    entries = []
    for i in range(region_before):
        entries.append(_guid(VHDX_BAT) if (i == 0 and pad == 'foreign')
                       else _foreign_guid(i, pad))
    entries.append(_guid(VHDX_METAREGION))
    for i in range(region_after):
        entries.append(_guid(VHDX_BAT) if (i == 0 and not region_before)
                       else _foreign_guid(100 + i, pad))
    count = n_region if region_count is None else region_count
    buf[rt:rt + 16] = struct.pack('<4sIII', regi_sig, 0x12345678,
                                  count & 0xffffffff, 0)
    for i, g in enumerate(entries):
        off = rt + 16 + 32 * i
        if off + 32 > rt + 64 * KI:
            break
        if g == _guid(VHDX_METAREGION):
            body = struct.pack('<QII', meta_offset, meta_len & 0xffffffff, 1)
        else:
            body = struct.pack('<QII', 3 * MI + i * MI, MI, 1)
        buf[off:off + 32] = g + body
    # metadata region: 32-byte header + 32-byte entries
    mt = meta_offset
    mcount = n_meta if meta_count is None else meta_count
    need = mt + 32 + 32 * n_meta
    if len(buf) < need:
        buf.extend(bytes(need - len(buf)))
    buf[mt:mt + 32] = struct.pack('<8sHH20s', meta_sig, 0, mcount & 0xffff,
                                  b'\0' * 20)
    mentries = []
    for i in range(meta_before):
        mentries.append(_guid(_FOREIGN_META[i % 5])
                        if (i < 5 and pad == 'foreign')
                        else _foreign_guid(200 + i, pad))
    mentries.append(_guid(VHDX_VDS))
    for i in range(meta_after):
        mentries.append(_foreign_guid(300 + i, pad))
    for i, g in enumerate(mentries):
        off = mt + 32 + 32 * i
        if g == _guid(VHDX_VDS):
            body = struct.pack('<IIII', item_offset & 0xffffffff,
                               item_length & 0xffffffff, 0x4, 0)
        else:
            body = struct.pack('<IIII', 64 * KI + 16 + 8 * i,
                               pad_item_length & 0xffffffff, 0, 0)
        buf[off:off + 32] = g + body
    # the size item itself
    io = mt + item_offset
    if len(buf) < io + 8:
        buf.extend(bytes(io + 8 - len(buf)))
    buf[io:io + 8] = struct.pack('<Q', size)
    meta_table_end = mt + 32 + 32 * n_meta
    conformant = (
        regi_sig == b'regi' and meta_sig == b'metadata' and
        ident == b'vhdxfile' and region_count is None and meta_count is None
        and item_length == 8 and item_offset >= 64 * KI and
        meta_offset >= 256 * KI and n_region <= 2047 and n_meta <= 2047
        and item_offset + 8 <= meta_len)
    return Img('vhdx', buf,
               dict(size=size, meta_offset=meta_offset,
                    region_before=region_before, region_after=region_after,
                    region_count=region_count, meta_before=meta_before,
                    meta_after=meta_after, meta_count=meta_count,
                    item_offset=item_offset, item_length=item_length,
                    tail=tail, fill=fill, pad=pad, meta_len=meta_len,
                    pad_item_length=pad_item_length,
                    regi_sig=regi_sig.decode('latin-1'),
                    meta_sig=meta_sig.decode('latin-1'),
                    ident=ident.decode('latin-1')),
               vsize=size if conformant else None,
               boundaries=(8, 32, 192 * KI, 192 * KI + 16,
                           192 * KI + 16 + 32 * n_region, 256 * KI, mt,
                           mt + 32, meta_table_end, mt + 64 * KI, io, io + 8,
                           # the size-carrying metadata entry and its fields
                           # (GUID 16, offset 4, length 4, flags 4, pad 4)
                           mt + 32 + 32 * meta_before,
                           mt + 32 + 32 * meta_before + 16,
                           mt + 32 + 32 * meta_before + 20,
                           mt + 32 + 32 * meta_before + 24,
                           mt + 32 + 32 * meta_before + 32,
                           # the metadata region's entry in the region table
                           192 * KI + 16 + 32 * region_before,
                           192 * KI + 16 + 32 * region_before + 16,
                           192 * KI + 16 + 32 * region_before + 24,
                           192 * KI + 16 + 32 * region_before + 32),
               size_field_end=io + 8,
               # the inspector captures the full 64 KiB table window first
               struct_end=max(io + 8, mt + 64 * KI),
               clean=conformant,
               note=None if conformant else 'hostile-layout')


# ---------------------------------------------------------------------- vmdk

GD_AT_END = 0xffffffffffffffff
VMDK_DEFAULT_LINES = (
    '# Disk DescriptorFile',
    'version=1',
    'CID=fffffffe',
    'parentCID=ffffffff',
    'createType="monolithicSparse"',
    '',
    '# Extent description',
    'RW 20480 SPARSE "disk.vmdk"',
    '',
    '# The Disk Data Base',
    '#DDB',
    '',
    'ddb.virtualHWVersion = "4"',
    'ddb.geometry.cylinders = "20"',
    'ddb.geometry.heads = "16"',
    'ddb.geometry.sectors = "63"',
    'ddb.adapterType = "ide"',
)


def vmdk_header(sig=b'KDMV', version=1, flags=3, capacity=20480, grain=128,
                desc_off=1, desc_num=1, num_gtes=512, rgd=0, gd=21,
                fill=0):
    h = struct.pack('<4sIIQQQQIQQ', sig, version & 0xffffffff, flags,
                    capacity, grain, desc_off, desc_num, num_gtes, rgd, gd)
    assert len(h) == 64
    h += struct.pack('<QB4sH', 128, 0, b'\n \r\n', 0)
    pad = 512 - len(h)
    h += rnd(fill, pad) if fill else b'\0' * pad
    return h


def vmdk_marker(val, size, typ, pad=b'\0'):
    return struct.pack('<QII', val, size, typ) + pad * 496


def classify_vmdk_lines(lines):
    """Unsafe descriptor traits by the statement of C02 (independent of the
    inspector): type other than the two allowed, an unrecognised line, no
    extent, an extent naming a path."""
    unsafe = set()
    ctype = None
    later_types = []
    extents = 0
    for raw in lines:
        line = raw.strip()
        low = line.lower()
        if not line or line.startswith('#'):
            continue
        if low.startswith('ddb'):
            continue
        first = low.split(' ')[0]
        if '=' in line and ' ' not in line.split('=')[0]:
            key, _, val = line.partition('=')
            if key.lower() == 'createtype':
                if ctype is None:
                    ctype = val
                else:
                    later_types.append(val)
            continue
        if first in ('rw', 'rdonly', 'noaccess'):
            extents += 1
            if '/' in line:
                unsafe.add('extent_path')
            continue
        unsafe.add('unknown_line')
    ok_types = ('"monolithicsparse"', '"streamoptimized"')
    if ctype is None or ctype.lower() not in ok_types:
        stray = [raw for raw in lines if 'createtype="' in raw.lower() and
                 not raw.strip().lower().startswith('createtype="')]
        if stray:
            # createType="..." appears only inside a comment / other line:
            # qemu and the inspector both search the text for it; the
            # statement does not say which reading is right
            unsafe.add('?type')
        else:
            unsafe.add('create_type')
    elif any(t.lower() not in ok_types for t in later_types):
        # the first createType line (the one qemu reads) is fine, a repeated
        # one is not: refusing is as defensible as accepting
        unsafe.add('?type')
    if extents == 0:
        unsafe.add('no_extent')
    return unsafe


def build_vmdk(lines=VMDK_DEFAULT_LINES, version=1, capacity=20480,
               desc_off=1, desc_num=None, footer=False, grain_data=1024,
               fill=1, sig=b'KDMV', newline='\n', hdr_fill=0,
               footer_over=None, desc_raw=None, truncate=None,
               exact_fill=False, final_newline=True, type_last=False):
    """Hosted sparse extent: header, descriptor at sector desc_off padded
    with NULs to desc_num sectors, grain data, optional footer triple.

    footer_over: dict overriding footer parts: any vmdk_header kwarg for the
    footer's header copy, plus fm_val/fm_size/fm_typ/fm_pad and
    eos_val/eos_size/eos_typ/eos_pad for the two markers."""
    if type_last:
        # the createType line moved to the end of the descriptor
        lines = [x for x in lines if not x.startswith('createType')] + \
            [x for x in lines if x.startswith('createType')]
    text = newline.join(lines).encode('ascii', 'replace')
    if final_newline:
        text += newline.encode()
    if exact_fill:
        # a comment line after the first one makes the text fill its
        # sectors exactly: no NUL padding at all behind it
        first, _sep, rest = text.partition(newline.encode())
        short = -(len(text) + 2 + len(newline)) % 512
        filler = b'#' + b'.' * (short + 1) + newline.encode()
        text = first + newline.encode() + filler + rest
        if len(text) % 512:
            raise ValueError('exact_fill arithmetic')
    if desc_raw is not None:
        text = desc_raw
    need = max(1, -(-len(text) // 512))
    dnum = need if desc_num is None else desc_num
    gd_real = min(desc_off + dnum, 2 ** 64 - 2)
    gd = GD_AT_END if footer else gd_real
    hdr = vmdk_header(sig=sig, version=version, capacity=capacity,
                      desc_off=desc_off, desc_num=dnum, gd=gd, fill=hdr_fill)
    buf = bytearray(hdr)
    # the text never overwrites the header: a header pointing at sector 0
    # (or far away) is hostile, the descriptor itself still sits at sector 1
    start = desc_off * 512 if 512 <= desc_off * 512 <= 4 * MI else 512
    if len(buf) < start:
        buf.extend(rnd(fill + 7, start - len(buf)))
    if dnum <= 4096:
        # the whole declared descriptor area, NUL padded
        desc = text[:dnum * 512].ljust(dnum * 512, b'\0')
    else:
        # hostile sector count: only the text itself is there
        desc = text.ljust(need * 512, b'\0')
    buf[start:start + len(desc)] = desc
    buf.extend(rnd(fill, grain_data))
    if desc_raw is None:
        unsafe = set(classify_vmdk_lines(lines))
    else:
        # the descriptor is NUL padded: it ends at the first NUL, whatever
        # follows is padding and not part of it
        head = desc_raw.split(b'\x00', 1)[0]
        try:
            unsafe = set(classify_vmdk_lines(
                head.decode('ascii').split('\n')))
        except UnicodeDecodeError:
            unsafe = {'descriptor_not_ascii'}
    murky = '?type' in unsafe
    unsafe.discard('?type')
    if footer:
        fo = dict(footer_over or {})
        fm = vmdk_marker(fo.pop('fm_val', 1), fo.pop('fm_size', 0),
                         fo.pop('fm_typ', 3), fo.pop('fm_pad', b'\0'))
        eos = vmdk_marker(fo.pop('eos_val', 0), fo.pop('eos_size', 0),
                          fo.pop('eos_typ', 0), fo.pop('eos_pad', b'\0'))
        fkw = dict(sig=sig, version=version, capacity=capacity,
                   desc_off=desc_off, desc_num=dnum, gd=gd_real,
                   fill=hdr_fill)
        bad_footer = bool(footer_over)
        fkw.update(fo)
        buf.extend(fm + vmdk_header(**fkw) + eos)
        if bad_footer:
            unsafe.add('footer')
    if version not in (1, 2, 3):
        unsafe.add('vmdk_version')
    if desc_off != 1:
        unsafe.add('descriptor_location')
    if sig != b'KDMV':
        unsafe.add('signature')
    data = bytes(buf)
    if truncate is not None:
        data = data[:truncate]
    desc_end = start + dnum * 512
    bounds = [4, 12, 20, 28, 36, 44, 56, 64, 512, start, start + len(text),
              desc_end]
    if footer:
        bounds += [len(data) - 1536, len(data) - 1024, len(data) - 512]
    return Img('vmdk', data,
               dict(lines=list(lines), version=version, capacity=capacity,
                    desc_off=desc_off, desc_num=desc_num, footer=footer,
                    grain_data=grain_data, fill=fill,
                    sig=sig.decode('latin-1'), newline=newline,
                    hdr_fill=hdr_fill, footer_over=footer_over,
                    desc_raw=None if desc_raw is None else desc_raw.hex(),
                    truncate=truncate, exact_fill=exact_fill,
                    final_newline=final_newline, type_last=type_last),
               vsize=capacity * 512, boundaries=bounds, size_field_end=20,
               struct_end=desc_end, unsafe=unsafe,
               clean=(not unsafe) and truncate is None and
               (desc_raw is None or b'\x00' not in desc_raw.rstrip(b'\x00'))
               and 1 <= dnum <= 2047 and not murky,
               note='createType only inside another line' if murky else None)


# ----------------------------------------------------------------------- vdi

def build_vdi(size=10 * MI, length=1024, fill=1,
              preamble=b'<<< Oracle VM VirtualBox Disk Image >>>\n'):
    hdr = bytearray(rnd(fill, 512))
    hdr[0:0x40] = preamble[:0x40].ljust(0x40, b'\0')
    hdr[0x40:0x44] = struct.pack('<I', 0xbeda107f)
    hdr[0x44:0x48] = struct.pack('<I', 0x00010001)
    hdr[0x170:0x178] = struct.pack('<Q', size)
    hdr[510:512] = b'\0\0'          # never an accidental MBR signature
    data = (bytes(hdr) + rnd(fill + 1, max(0, length - 512)))[:length]
    return Img('vdi', data, dict(size=size, length=length, fill=fill,
                                 preamble=preamble.decode('latin-1')),
               vsize=size, boundaries=(0x40, 0x44, 0x170, 0x178, 512),
               size_field_end=0x178, struct_end=512, clean=length >= 512)


# ----------------------------------------------------------------------- iso

def build_iso(blocks=5120, block_size=2048, ident=b'CD001', dtype=1,
              system_area=None, tail=2048, fill=1, extra=0, extra_type=2,
              terminator=True):
    """extra: number of further volume descriptors (boot record 0,
    supplementary 2, partition 3, ...) that follow the primary one in the
    volume descriptor set, closed by a set terminator (type 255)."""
    sa = system_area if system_area is not None else b'\0' * (32 * KI)
    sa = sa[:32 * KI].ljust(32 * KI, b'\0')
    pvd = bytearray(rnd(fill, 2048))
    pvd[0] = dtype & 0xff
    pvd[1:6] = ident
    pvd[6] = 1
    pvd[80:88] = struct.pack('<I', blocks) + struct.pack('>I', blocks)
    pvd[128:132] = struct.pack('<H', block_size) + struct.pack('>H',
                                                               block_size)
    vds = b''
    for i in range(extra):
        d = bytearray(2048)
        d[0] = extra_type & 0xff
        d[1:6] = b'CD001'
        d[6] = 1
        d[8:40] = (b'EXTRA DESCRIPTOR %d' % i).ljust(32)
        vds += bytes(d)
    if extra and terminator:
        vds += b'\xffCD001\x01' + bytes(2041)
    data = sa + bytes(pvd) + vds + rnd(fill + 1, tail)
    primary = dtype == 1 and ident in (b'CD001', b'NSR02', b'NSR03')
    return Img('iso', data,
               dict(blocks=blocks, block_size=block_size,
                    ident=ident.decode('latin-1'), dtype=dtype, tail=tail,
                    fill=fill, extra=extra, extra_type=extra_type,
                    terminator=terminator,
                    system_area=None if system_area is None
                    else system_area[:1024].hex()),
               vsize=blocks * block_size if primary else None,
               boundaries=(32 * KI, 32 * KI + 1, 32 * KI + 6, 32 * KI + 80,
                           32 * KI + 84, 32 * KI + 128, 32 * KI + 130,
                           34 * KI),
               size_field_end=32 * KI + 130, struct_end=34 * KI,
               clean=ident in (b'CD001', b'NSR02', b'NSR03'))


# ----------------------------------------------------------------- gpt / mbr

# partition entry classes of the bounded MBR family (C02)
PTE_CLASSES = ('empty', 'data', 'prot_ok', 'prot_bad_chs', 'prot_bad_lba')
BOOT_CLASSES = (0x00, 0x80, 0x01)


def pte(cls, boot=0x00, salt=0, prot_size=0xffffffff):
    if cls == 'empty':
        return struct.pack('<B3BB3BII', boot, 0, 0, 0, 0x00, 0, 0, 0, 0, 0)
    if cls == 'data':
        return struct.pack('<B3BB3BII', boot, 0x20, 0x21, 0, 0x83,
                           0xfe, 0xff, 0xff, 2048 + salt, 409600)
    if cls == 'prot_ok':
        return struct.pack('<B3BB3BII', boot, 0x00, 0x02, 0x00, 0xEE,
                           0xff, 0xff, 0xff, 1, prot_size & 0xffffffff)
    if cls == 'prot_bad_chs':
        return struct.pack('<B3BB3BII', boot, 0x00, 0x01, 0x00, 0xEE,
                           0xff, 0xff, 0xff, 1, 0xffffffff)
    if cls == 'prot_bad_lba':
        return struct.pack('<B3BB3BII', boot, 0x00, 0x02, 0x00, 0xEE,
                           0xff, 0xff, 0xff, 2, 0xffffffff)
    raise ValueError(cls)


def mbr_unsafe(entries):
    """entries: list of 4 (cls, boot).  Traits by the statement of C02."""
    unsafe = set()
    if any(b not in (0x00, 0x80) for _c, b in entries):
        unsafe.add('boot_flag')
    non_empty = [i for i, (c, _b) in enumerate(entries) if c != 'empty']
    prot = [i for i, (c, _b) in enumerate(entries) if c.startswith('prot')]
    if any(entries[i][0] != 'prot_ok' for i in prot):
        unsafe.add('protective_misplaced')
    if prot and non_empty != [0]:
        unsafe.add('protective_accompanied')
    if not non_empty:
        unsafe.add('no_partition')
    return unsafe


def build_gpt(entries=(('prot_ok', 0),) + (('empty', 0),) * 3, length=5120,
              fill=0, fat=False, sig=b'\x55\xaa', prot_size=0xffffffff):
    """prot_size: the size-in-LBA field of protective (0xEE) entries; it may
    be smaller or larger than the stream (a truncated or grown image)."""
    sec = bytearray(rnd(fill, 446) if fill else bytes(446))
    if fill:
        # keep the sector from looking like a FAT boot sector by accident
        sec[0x10] = 0 if not fat else 2
        sec[0x15] = 0 if not fat else 0xF8
    if fat:
        sec[0x10] = 2
        sec[0x15] = 0xF8
    for i, (cls, boot) in enumerate(entries):
        sec += pte(cls, boot, salt=i, prot_size=prot_size)
    sec += sig
    assert len(sec) == 512
    body = rnd(fill + 1, max(0, length - 512)) if fill else bytes(
        max(0, length - 512))
    data = (bytes(sec) + body)[:length]
    unsafe = mbr_unsafe(list(entries))
    return Img('gpt', data,
               dict(entries=[list(e) for e in entries], length=length,
                    fill=fill, fat=fat, sig=sig.hex(), prot_size=prot_size),
               vsize=len(data),
               boundaries=(0x10, 0x15, 446, 462, 478, 494, 510, 512),
               struct_end=512, unsafe=unsafe,
               clean=(not unsafe) and not fat and sig == b'\x55\xaa'
               and length >= 512)


# ---------------------------------------------------------------------- luks

def build_luks(version=1, payload_offset=8, length=None, fill=1,
               payload=2048):
    hdr = bytearray(rnd(fill, 592))
    hdr[0:6] = b'LUKS\xba\xbe'
    hdr[6:8] = struct.pack('>h', version)
    hdr[8:40] = b'aes'.ljust(32, b'\0')
    hdr[40:72] = b'xts-plain64'.ljust(32, b'\0')
    hdr[72:104] = b'sha256'.ljust(32, b'\0')
    hdr[104:108] = struct.pack('>I', payload_offset)
    hdr[510:512] = b'\0\0'
    if length is None:
        length = max(592, payload_offset * 512 + payload)
    data = (bytes(hdr) + rnd(fill + 1, max(0, length - 592)))[:length]
    unsafe = set()
    if version != 1:
        unsafe.add('luks_version')
    return Img('luks', data,
               dict(version=version, payload_offset=payload_offset,
                    length=length, fill=fill, payload=payload),
               vsize=len(data) - payload_offset * 512,
               boundaries=(6, 8, 104, 108, 512, 592), size_field_end=108,
               struct_end=592, unsafe=unsafe,
               clean=(not unsafe) and length >= 592)


# ----------------------------------------------------------------------- raw

def build_raw(length=4096, kind='random', fill=1, late=None):
    """kind: zero | random | ascii | utf8 (ASCII with one non-ASCII char at
    byte offset `late`)."""
    if kind == 'zero':
        data = bytes(length)
    elif kind == 'random':
        data = bytearray(rnd(fill, length))
        # make sure no signature is present by accident
        for off, n in ((0, 8), (0x40, 4), (510, 2), (32769, 5)):
            if len(data) >= off + n:
                data[off:off + n] = b'\x11' * n
        data = bytes(data)
    else:
        words = ('lorem ipsum dolor sit amet, consectetur adipiscing elit\n'
                 'sed do eiusmod tempor = incididunt ut labore et dolore\n')
        r = random.Random(fill)
        out = []
        n = 0
        while n < length:
            w = words[r.randrange(len(words)):][:r.randrange(5, 60)]
            out.append(w)
            n += len(w)
        data = ''.join(out).encode('ascii')[:length]
        if kind == 'utf8' and late is not None and late + 2 <= length:
            data = data[:late] + 'é'.encode('utf-8') + data[late + 2:]
    return Img('raw', data, dict(length=length, kind=kind, fill=fill,
                                 late=late),
               vsize=length, boundaries=(4, 64, 512), clean=True)


BUILDERS = {
    'raw': build_raw, 'qcow2': build_qcow2, 'qed': build_qed,
    'vhd': build_vhd, 'vhdx': build_vhdx, 'vmdk': build_vmdk,
    'vdi': build_vdi, 'iso': build_iso, 'gpt': build_gpt, 'luks': build_luks,
}


def build(fmt, params):
    """Rebuild an image from a JSON-able (fmt, params) record."""
    p = dict(params)
    if fmt == 'vhdx':
        for k in ('regi_sig', 'meta_sig', 'ident'):
            if isinstance(p.get(k), str):
                p[k] = p[k].encode('latin-1')
    elif fmt == 'vmdk':
        if isinstance(p.get('sig'), str):
            p['sig'] = p['sig'].encode('latin-1')
        if p.get('desc_raw') is not None:
            p['desc_raw'] = bytes.fromhex(p['desc_raw'])
        if p.get('footer_over'):
            fo = dict(p['footer_over'])
            for k in ('fm_pad', 'eos_pad', 'sig'):
                if isinstance(fo.get(k), str):
                    fo[k] = fo[k].encode('latin-1')
            p['footer_over'] = fo
        if p.get('lines') is not None:
            p['lines'] = tuple(p['lines'])
    elif fmt == 'vdi':
        if isinstance(p.get('preamble'), str):
            p['preamble'] = p['preamble'].encode('latin-1')
    elif fmt == 'iso':
        if isinstance(p.get('ident'), str):
            p['ident'] = p['ident'].encode('latin-1')
        if p.get('system_area') is not None:
            p['system_area'] = bytes.fromhex(p['system_area'])
    elif fmt == 'gpt':
        if p.get('entries') is not None:
            p['entries'] = tuple(tuple(e) for e in p['entries'])
        if isinstance(p.get('sig'), str):
            p['sig'] = bytes.fromhex(p['sig'])
    return BUILDERS[fmt](**p)


# ------------------------------------------------------------------ overlays

SIGNATURES = {
    # name: (offset, bytes, minimal complete-structure length)
    'qcow2': (0, b'QFI\xfb', 512),
    'qed': (0, b'QED\x00', 512),
    'vhd': (0, b'conectix', 512),
    'vhdx': (0, b'vhdxfile', 256 * KI),
    'vmdk': (0, b'KDMV', 512),
    'luks': (0, b'LUKS\xba\xbe', 592),
    'vdi': (0x40, struct.pack('<I', 0xbeda107f), 512),
    'gpt': (510, b'\x55\xaa', 512),
    'iso': (32769, b'CD001', 34 * KI),
}


def overlay(length, background='zero', sigs=(), fill=1, fat=False,
            corrupt=None):
    """Background of `length` bytes with the given signatures stamped on.
    corrupt: {name: byte index} - that byte of the named signature is
    flipped (a near miss: the signature is then absent)."""
    if background == 'zero':
        buf = bytearray(length)
    elif background == 'random':
        buf = bytearray(build_raw(length, 'random', fill).data)
    else:
        buf = bytearray(build_raw(length, 'ascii', fill).data)
    for name in sigs:
        off, sig, _n = SIGNATURES[name]
        if corrupt and name in corrupt:
            sig = bytearray(sig)
            sig[corrupt[name] % len(sig)] ^= 0x20
            sig = bytes(sig)
        if off + len(sig) <= length:
            buf[off:off + len(sig)] = sig
    if fat and length > 0x15:
        # True: the FAT boot-sector look-alike (two FATs, media descriptor
        # F8); 'numfats' / 'media': only one of the two bytes - not a FAT
        buf[0x10] = 2 if fat in (True, 'numfats') else 0
        buf[0x15] = 0xF8 if fat in (True, 'media') else 0
    return bytes(buf)


# ------------------------------------------------------------- field tables
# (offset, width, byteorder) of the numeric header fields each format
# document defines - used to set "every length/count/offset field" to hostile
# values, not only the ones an inspector happens to read today.

FIELDS = {
    'qcow2': [(4, 4, 'big'), (8, 8, 'big'), (16, 4, 'big'), (20, 4, 'big'),
              (24, 8, 'big'), (32, 4, 'big'), (36, 4, 'big'), (40, 8, 'big'),
              (48, 8, 'big'), (56, 4, 'big'), (60, 4, 'big'), (64, 8, 'big'),
              (72, 8, 'big'), (80, 8, 'big'), (88, 8, 'big'), (96, 4, 'big'),
              (100, 4, 'big')],
    'qed': [(4, 4, 'little'), (8, 4, 'little'), (12, 4, 'little'),
            (16, 8, 'little'), (24, 8, 'little'), (32, 8, 'little'),
            (40, 8, 'little'), (48, 4, 'little'), (52, 4, 'little')],
    'vhd': [(8, 4, 'big'), (12, 4, 'big'), (16, 8, 'big'), (24, 4, 'big'),
            (40, 8, 'big'), (48, 8, 'big'), (56, 4, 'big'), (60, 4, 'big'),
            (64, 4, 'big')],
    'vmdk': [(4, 4, 'little'), (8, 4, 'little'), (12, 8, 'little'),
             (20, 8, 'little'), (28, 8, 'little'), (36, 8, 'little'),
             (44, 4, 'little'), (48, 8, 'little'), (56, 8, 'little'),
             (64, 8, 'little'),
             # rest of the documented SparseExtentHeader: uncleanShutdown,
             # the four end-of-line canary characters, compressAlgorithm
             (72, 1, 'little'), (73, 1, 'little'), (74, 1, 'little'),
             (75, 1, 'little'), (76, 1, 'little'), (77, 2, 'little')],
    'vdi': [(0x44, 4, 'little'), (0x48, 4, 'little'), (0x4c, 4, 'little'),
            (0x154, 4, 'little'), (0x158, 4, 'little'), (0x15c, 4, 'little'),
            (0x170, 8, 'little'), (0x178, 4, 'little'), (0x180, 4, 'little'),
            (0x184, 4, 'little')],
    'luks': [(6, 2, 'big'), (104, 4, 'big'), (108, 4, 'big')] +
            [(208 + 48 * i + o, 4, 'big') for i in range(8)
             for o in (0, 4, 40, 44)],
    'iso': [(32768 + 80, 4, 'little'), (32768 + 84, 4, 'big'),
            (32768 + 120, 2, 'little'), (32768 + 128, 2, 'little'),
            (32768 + 132, 4, 'little'), (32768 + 140, 4, 'little'),
            (32768 + 148, 4, 'big'), (32768 + 158, 4, 'little'),
            (32768 + 166, 4, 'little')],
    'gpt': [(446 + 16 * i + o, 4, 'little') for i in range(4)
            for o in (8, 12)] + [(446 + 16 * i + 4, 1, 'little')
                                 for i in range(4)],
    'vhdx': [(192 * KI + 8, 4, 'little'), (192 * KI + 32, 8, 'little'),
             (192 * KI + 40, 4, 'little'), (192 * KI + 64, 8, 'little'),
             (192 * KI + 72, 4, 'little')],
    'raw': [],
}
HOSTILE_VALUES = (0, 1, 8, 512, 4096, 65536, 600 * KI, MI, 2 * MI,
                  2 ** 31 - 1, 2 ** 31, 2 ** 32 - 1, 2 ** 32, 2 ** 40,
                  2 ** 63 - 1, 2 ** 63, 2 ** 64 - 1)


def field_bytes(value, width, order):
    return (value & ((1 << (8 * width)) - 1)).to_bytes(width, order)
