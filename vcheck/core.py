"""Runner plumbing shared by all property checks.

* bootstrap(): put the tree under test (VERIF_REPO, default /repo) first on
  sys.path and make sure that is what gets imported.
* Collector: measured coverage numbers (evaluations, distinct non-trivial
  cases, class histogram, samples, unspecified-zone counts, failures).
* Task / run_tasks(): shard work over worker processes and merge collectors.
* run_given(): drive one Hypothesis search with the project-wide settings and
  turn its (shrunk) failure into a Violation record.
* Violation: a property failure carrying a JSON-able case for the replay file.

Exit codes used by __main__: 0 held, 1 violation, 2 harness error.
"""

import collections
import hashlib
import json
import multiprocessing
import os
import sys
import time
import traceback

VERIF_DIR = os.path.dirname(os.path.dirname(os.path.abspath(__file__)))
REPO = os.path.realpath(os.environ.get('VERIF_REPO', '/repo'))
# where evidence/ and replays/found/ are written (the self-test points this
# at a scratch directory so mutant runs do not clobber real evidence)
OUT_DIR = os.environ.get('VERIF_OUT') or VERIF_DIR
NPROC = int(os.environ.get('VERIF_NPROC', '0')) or min(16, os.cpu_count() or 1)


class HarnessError(Exception):
    """The machinery itself is broken (never reported as a violation)."""


class Violation(Exception):
    """A generated case on which the property does not hold."""

    def __init__(self, sub, msg, case):
        super().__init__('%s: %s' % (sub, msg))
        self.sub = sub
        self.msg = msg
        self.case = case

    def record(self):
        return {'sub': self.sub, 'msg': self.msg, 'case': self.case}


def bootstrap():
    deps = os.path.join(VERIF_DIR, '.deps')
    if os.path.isdir(deps) and deps not in sys.path:
        sys.path.insert(0, deps)
    if 'oslo_utils' in sys.modules:
        mod = sys.modules['oslo_utils']
    else:
        sys.path.insert(0, REPO)
        import oslo_utils as mod
    # the code under test logs warnings/errors for hostile inputs; keep
    # them off the check's output
    import logging
    lg = logging.getLogger('oslo_utils')
    lg.addHandler(logging.NullHandler())
    lg.propagate = False
    where = os.path.realpath(os.path.dirname(mod.__file__))
    if not where.startswith(REPO + os.sep):
        raise HarnessError('oslo_utils imported from %s, not from %s'
                           % (where, REPO))
    return mod


def h64(obj):
    if not isinstance(obj, bytes):
        obj = repr(obj).encode('utf-8', 'surrogatepass')
    return int.from_bytes(hashlib.blake2b(obj, digest_size=8).digest(), 'big')


def derive_seed(seed, *parts):
    return h64(('seed', int(seed)) + tuple(parts)) & 0x7fffffff


def fresh(s):
    """An equal but not identical (and not interned) copy of a str: code
    that compares selector strings with `is` only works for literals."""
    if type(s) is not str or not s:
        return s
    return (s + ' ')[:-1] if len(s) > 1 else bytes(s, 'utf-8').decode('utf-8')


def jsonable(x, limit=400):
    """Best-effort conversion of a case to something json.dump accepts."""
    if isinstance(x, (bytes, bytearray)):
        b = bytes(x)
        if len(b) > limit:
            return {'hex_head': b[:limit].hex(), 'len': len(b),
                    'blake2b8': '%016x' % h64(b)}
        return {'hex': b.hex()}
    if isinstance(x, dict):
        return {str(k): jsonable(v, limit) for k, v in x.items()}
    if isinstance(x, (list, tuple, set, frozenset)):
        seq = list(x)
        if isinstance(x, (set, frozenset)):
            seq = sorted(seq, key=repr)
        return [jsonable(v, limit) for v in seq]
    if isinstance(x, float):
        if x != x or x in (float('inf'), float('-inf')):
            return repr(x)
        return x
    if isinstance(x, (str, int, bool)) or x is None:
        return x
    return repr(x)


class Collector:
    MAX_SAMPLES_PER_CLASS = 2
    MAX_FAILURES = 8

    def __init__(self, deadline=None):
        self.evaluations = 0
        self.nontrivial = set()
        self.classes = collections.Counter()
        self.subs = collections.Counter()
        self.sub_nontrivial = collections.Counter()
        self.unspecified = collections.Counter()
        self.excluded_known = collections.Counter()
        self.seam_unreachable = collections.Counter()
        self.samples = {}
        self.failures = []
        self.exhaustive = {}
        self.notes = []
        self.budget_skips = 0
        # cases known distinct by construction (exhaustive enumerations),
        # counted without hashing
        self.distinct_extra = 0
        self.deadline = deadline

    # -- recording ---------------------------------------------------------
    def case(self, sub, key, nontrivial, cls=None, sample=None):
        """Count one executed case.

        key: hashable/repr-able identity of the case (used for distinctness)
        nontrivial: result of the property's stated non-triviality rule
        cls: label(s) for the class histogram
        sample: JSON-able rendering kept for a few cases per class
        """
        self.evaluations += 1
        self.subs[sub] += 1
        if nontrivial:
            h = h64((sub, key))
            if h not in self.nontrivial:
                self.nontrivial.add(h)
                self.sub_nontrivial[sub] += 1
        if cls is not None:
            if isinstance(cls, str):
                cls = (cls,)
            for c in cls:
                label = '%s:%s' % (sub, c)
                self.classes[label] += 1
                if sample is not None:
                    lst = self.samples.setdefault(label, [])
                    if len(lst) < self.MAX_SAMPLES_PER_CLASS:
                        lst.append(jsonable(sample))
                        sample = None

    def count(self, sub, n, cls=None):
        """Bulk-count cases whose distinctness is tracked elsewhere."""
        self.evaluations += n
        self.subs[sub] += n
        if cls:
            self.classes['%s:%s' % (sub, cls)] += n

    def unspec(self, sub, what):
        self.unspecified['%s:%s' % (sub, what)] += 1

    def known(self, sub, what):
        self.excluded_known['%s:%s' % (sub, what)] += 1

    def seam(self, sub, what):
        self.seam_unreachable['%s:%s' % (sub, what)] += 1

    def fail(self, violation):
        if len(self.failures) < self.MAX_FAILURES:
            self.failures.append(violation.record())

    def out_of_time(self):
        if self.deadline is not None and time.monotonic() > self.deadline:
            self.budget_skips += 1
            return True
        return False

    # -- transport ---------------------------------------------------------
    def dump(self):
        return {
            'evaluations': self.evaluations,
            'nontrivial': self.nontrivial,
            'classes': self.classes, 'subs': self.subs,
            'sub_nontrivial': self.sub_nontrivial,
            'unspecified': self.unspecified,
            'excluded_known': self.excluded_known,
            'seam_unreachable': self.seam_unreachable,
            'samples': self.samples, 'failures': self.failures,
            'exhaustive': self.exhaustive, 'notes': self.notes,
            'budget_skips': self.budget_skips,
            'distinct_extra': self.distinct_extra,
        }

    def merge(self, d):
        self.evaluations += d['evaluations']
        self.nontrivial |= d['nontrivial']
        self.classes.update(d['classes'])
        self.subs.update(d['subs'])
        self.unspecified.update(d['unspecified'])
        self.excluded_known.update(d['excluded_known'])
        self.seam_unreachable.update(d['seam_unreachable'])
        for k, v in d['samples'].items():
            lst = self.samples.setdefault(k, [])
            for s in v:
                if len(lst) < self.MAX_SAMPLES_PER_CLASS:
                    lst.append(s)
        self.failures.extend(d['failures'])
        for k, v in d['exhaustive'].items():
            self.exhaustive[k] = self.exhaustive.get(k, True) and v
        self.notes.extend(d['notes'])
        self.budget_skips += d['budget_skips']
        self.distinct_extra += d['distinct_extra']


class Task:
    def __init__(self, sub, fn, **kwargs):
        self.sub = sub
        self.fn = fn
        self.kwargs = kwargs


def _run_one(args):
    idx, task, deadline = args
    col = Collector(deadline=deadline)
    t0 = time.monotonic()
    err = None
    try:
        task.fn(col, **task.kwargs)
    except Violation as v:
        col.fail(v)
    except BaseException:  # harness failure inside a worker
        err = traceback.format_exc()
    d = col.dump()
    d['task'] = (idx, task.sub, time.monotonic() - t0)
    d['error'] = err
    return d


def run_tasks(tasks, budget_s=None, nproc=None):
    """Run tasks in forked workers; return (merged Collector, timings)."""
    nproc = nproc or NPROC
    deadline = time.monotonic() + budget_s if budget_s else None
    merged = Collector()
    timings = []
    errors = []
    jobs = [(i, t, deadline) for i, t in enumerate(tasks)]
    if nproc <= 1 or len(jobs) <= 1:
        results = map(_run_one, jobs)
        pool = None
    else:
        ctx = multiprocessing.get_context('fork')
        pool = ctx.Pool(min(nproc, len(jobs)), maxtasksperchild=None)
        results = pool.imap_unordered(_run_one, jobs, chunksize=1)
    try:
        for d in results:
            timings.append(d.pop('task'))
            e = d.pop('error')
            if e:
                errors.append(e)
            merged.merge(d)
    finally:
        if pool is not None:
            pool.close()
            pool.join()
    # recompute per-sub distinct counts is not possible after hashing; keep
    # the global distinct set (hashes include the sub name).
    if errors:
        raise HarnessError('worker failure:\n' + '\n'.join(errors))
    return merged, sorted(timings)


# -- arguments as subclass instances ---------------------------------------

def with_subclass_args(col, inner_fn, inner_kwargs, inner_sub):
    """Run one (deterministic) task again with every str / int / bytes
    argument handed to the code under test as an instance of a behaviour-free
    subclass (vcheck/argtypes.py).  The oracles are unchanged."""
    from vcheck import argtypes
    argtypes.ACTIVE[0] = True
    scratch = Collector(deadline=col.deadline)
    try:
        try:
            inner_fn(scratch, **inner_kwargs)
        except Violation as v:
            case = v.case
            if isinstance(case, dict):
                case = dict(case, arg_subclass=True)
            raise Violation(v.sub, 'with str/int arguments passed as '
                            'subclass instances: ' + v.msg, case)
    finally:
        argtypes.ACTIVE[0] = False
    for rec in scratch.failures:
        if isinstance(rec.get('case'), dict):
            rec['case']['arg_subclass'] = True
        col.failures.append(rec)
    col.case('subclass-args', (inner_sub, json.dumps(
        jsonable(inner_kwargs), sort_keys=True, default=repr)), True,
        'task/' + inner_sub, {'task': inner_sub,
                              'evaluations': scratch.evaluations})
    col.count('subclass-args', max(0, scratch.evaluations - 1),
              'evaluations')
    col.distinct_extra += max(0, len(scratch.nontrivial)
                              + scratch.distinct_extra - 1)


# -- schedules of first use ------------------------------------------------

def first_use_race(col, sub, module_names, make_jobs, trials, nthreads=8):
    """The first use of a module in a process, by several threads at once.

    Each trial re-imports the named modules (importlib.reload), so whatever
    they build lazily - pattern tables, grammars, multiplier tables - is
    built again, then releases `nthreads` threads through a barrier; thread i
    runs jobs[i](), an ordinary oracle check that raises Violation.  The
    interpreter's switch interval is lowered so the threads interleave.
    make_jobs(trial) -> list of (label, sample, callable)."""
    import importlib
    import threading
    mods = [importlib.import_module(m) for m in module_names]
    saved = sys.getswitchinterval()
    sys.setswitchinterval(1e-6)
    try:
        for t in range(trials):
            for m in mods:
                importlib.reload(m)
            jobs = make_jobs(t)[:nthreads]
            barrier = threading.Barrier(len(jobs))
            out = [None] * len(jobs)

            def work(i):
                barrier.wait()
                try:
                    jobs[i][2]()
                except Violation as v:
                    out[i] = v
                except BaseException:
                    out[i] = traceback.format_exc()

            ths = [threading.Thread(target=work, args=(i,))
                   for i in range(len(jobs))]
            for th in ths:
                th.start()
            for th in ths:
                th.join()
            for i, r in enumerate(out):
                col.case(sub, (t, i, jobs[i][0]), True, 'first-use',
                         jobs[i][1])
                if isinstance(r, Violation):
                    if isinstance(r.case, dict):
                        r.case = dict(r.case, first_use_threads=len(jobs),
                                      trial=t)
                    r.sub = sub
                    raise r
                if r is not None:
                    raise HarnessError('first-use thread %d: %s' % (i, r))
    finally:
        sys.setswitchinterval(saved)
        for m in mods:
            importlib.reload(m)
    col.exhaustive.setdefault(sub, False)


def preemption_sweep(col, sub, module_names, first, second, label,
                     max_points=600, sample=None, before_each=None,
                     max_seconds=None):
    """Schedules owned by the harness: every single preemption of a first
    call by a second one, at line granularity.

    For k = 1, 2, ...: the named modules are re-imported (so lazily built
    state is built again), thread A runs first() under a line tracer and is
    suspended just before the k-th line it executes inside those modules'
    source files; the calling thread then runs second() to completion and
    lets A finish.  first/second are oracle checks raising Violation.  The
    sweep ends when A finishes before reaching line k.  This explores the
    schedules a lucky thread switch would produce, deterministically."""
    import importlib
    import threading
    mods = [importlib.import_module(m) for m in module_names]
    files = set()
    for m in mods:
        f = getattr(m, '__file__', None)
        if f:
            files.add(f)
    explored = 0
    t_end = None if max_seconds is None else time.monotonic() + max_seconds
    try:
        k = 0
        while k < max_points:
            if t_end is not None and time.monotonic() > t_end:
                break           # bounded exploration, not a verdict
            k += 1
            for m in mods:
                importlib.reload(m)
            if before_each is not None:
                before_each()
            paused = threading.Event()
            resume = threading.Event()
            state = {'n': 0, 'hit': False}
            res_a = []

            def tracer(frame, event, arg):
                if frame.f_code.co_filename not in files:
                    return None
                if frame.f_code.co_name == '<module>':
                    return None     # a (re-)import is not a call to preempt
                if event == 'line':
                    state['n'] += 1
                    if state['n'] == k:
                        state['hit'] = True
                        paused.set()
                        resume.wait(30)
                return tracer

            def run_a():
                sys.settrace(tracer)
                try:
                    first()
                except Violation as v:
                    res_a.append(v)
                except BaseException:
                    res_a.append(traceback.format_exc())
                finally:
                    sys.settrace(None)
                    paused.set()

            th = threading.Thread(target=run_a)
            th.start()
            if not paused.wait(30):
                resume.set()
                raise HarnessError('preemption sweep: first call hung')
            res_b = []
            tb = None
            if state['hit']:
                def run_b():
                    try:
                        second()
                    except Violation as v:
                        res_b.append(v)
                    except BaseException:
                        res_b.append(traceback.format_exc())

                # B runs while A is suspended; if A was stopped inside a
                # critical section B legitimately blocks on A's lock: give
                # it a moment, then let A go on and wait for both
                tb = threading.Thread(target=run_b)
                tb.start()
                tb.join(0.25)
            resume.set()
            th.join(30)
            if tb is not None:
                tb.join(30)
            if th.is_alive() or (tb is not None and tb.is_alive()):
                raise HarnessError('preemption sweep: a call did not finish')
            res_b = res_b[0] if res_b else None
            if not state['hit']:
                break
            explored += 1
            for who, r in (('second', res_b), ('first', res_a[0] if res_a
                                                 else None)):
                if isinstance(r, Violation):
                    if isinstance(r.case, dict):
                        r.case = dict(r.case, preempt_at_line_event=k,
                                      preempt=label, failing_call=who)
                    r.sub = sub
                    r.msg = ('%s call, with the first call suspended before '
                             'its line event %d: %s' % (who, k, r.msg))
                    raise r
                if r is not None:
                    raise HarnessError('preemption sweep (%s call): %s'
                                       % (who, r))
    finally:
        for m in mods:
            importlib.reload(m)
    col.case(sub, ('preempt', label), True, 'preemption-points',
             dict(sample or {}, preempt=label, points=explored))
    col.count(sub, max(0, explored - 1), 'preemption-points')
    col.distinct_extra += max(0, explored - 1)
    return explored


def preempt_pair(col, prop, module_names, rec_a, rec_b):
    """One preemption sweep built from two cases the run has already judged
    (taken from the collector's samples): case A's check is suspended at
    every line of the code under test in turn while case B's check runs.
    The single-case oracle is the property module's replay()."""
    import importlib
    mod = importlib.import_module('vcheck.props.%s' % prop.lower())
    sub = 'preempt'
    # both cases must hold on their own; a sample that is only a summary of
    # its case (or that the module cannot replay) is not used
    for rec in (rec_a, rec_b):
        try:
            mod.replay(rec)
        except BaseException:
            col.count(sub, 1, 'sample-not-replayable')
            return
    label = '%s | %s' % (rec_a.get('sub'), rec_b.get('sub'))
    try:
        preemption_sweep(col, sub, module_names,
                         lambda: mod.replay(rec_a), lambda: mod.replay(rec_b),
                         label, max_points=150, max_seconds=5,
                         sample={'first': rec_a, 'second': rec_b})
    except Violation as v:
        # keep the failing case replayable on its own and record the pair,
        # so that --replay can re-create the schedule
        who = v.case.get('failing_call') if isinstance(v.case, dict) else None
        rec = rec_a if who == 'first' else rec_b
        case = rec['case']
        if isinstance(case, dict):
            case = dict(case, preempt_pair=[rec_a, rec_b],
                        preempt_at_line_event=v.case.get(
                            'preempt_at_line_event')
                        if isinstance(v.case, dict) else None)
        raise Violation(rec.get('sub') or sub, v.msg, case)


def preempt_calls(col, sub, module_names, calls, before_each=None):
    """Preemption sweeps over a ring of plain calls with literal expected
    outcomes: calls = [(label, thunk, ('value', v) | ('raise', 'Class'))].
    Call i is suspended at every line while call i+1 runs."""
    def mk(c):
        def run():
            try:
                got = ('value', c[1]())
            except Exception as e:
                got = ('raise', type(e).__name__)
                # a subclass of the documented class is that class
                if c[2][0] == 'raise' and c[2][1] in [
                        k.__name__ for k in type(e).__mro__]:
                    got = c[2]
            if got != c[2]:
                raise Violation(sub, '%s: %r, expected %r' % (c[0], got, c[2]),
                                {'call': c[0], 'preempt_calls': True})
        return run
    total = 0
    for i in range(len(calls)):
        a, b = calls[i], calls[(i + 1) % len(calls)]
        total += preemption_sweep(col, sub, module_names, mk(a), mk(b),
                                  '%s | %s' % (a[0], b[0]),
                                  before_each=before_each, max_seconds=4)
    return total


def preempt_tasks(col, prop, module_names, seed, pairs):
    """Pick `pairs` pairs of sampled cases (round-robin over sub-checks,
    order fixed by the seed) and return one Task per pair."""
    by_sub = {}
    for label in sorted(col.samples):
        sub = label.split(':', 1)[0]
        if sub in ('python-O', 'preempt'):
            continue
        for smp in col.samples[label]:
            if isinstance(smp, dict) and not (set(smp) & {
                    'python_flags', 'threads', 'first_use_threads', 'trial',
                    'preempt', 'preempt_calls', 'preempt_pair', 'interface',
                    'concurrent', 'concurrent_ensure'}):
                by_sub.setdefault(sub, []).append(smp)
    order = []
    subs = sorted(by_sub)
    i = 0
    while subs and len(order) < 4 * pairs:
        progressed = False
        for sname in subs:
            lst = by_sub[sname]
            if i < len(lst):
                order.append((sname, lst[i]))
                progressed = True
        if not progressed:
            break
        i += 1
    order.sort(key=lambda x: h64((seed, x[0], json.dumps(x[1], sort_keys=True,
                                                           default=repr))))
    out = []
    for j in range(0, min(len(order) - 1, 2 * pairs), 2):
        (sa, ca), (sb, cb) = order[j], order[j + 1]
        out.append(Task('preempt', preempt_pair, prop=prop,
                        module_names=list(module_names),
                        rec_a={'sub': sa, 'case': ca, 'property': prop},
                        rec_b={'sub': sb, 'case': cb, 'property': prop}))
    return out


# -- ambient interpreter configuration -----------------------------------

def optimized_child(col, prop, subs):
    """Re-run the named (deterministic, cheap) sub-checks of `prop` in a
    `python -O` child process: assert statements and `if __debug__:` blocks
    are compiled away there, so validation that leans on them disappears.
    The property does not depend on interpreter flags; every violation the
    child reports is a violation (its replay record carries
    python_flags=['-O'] so that --replay re-creates the configuration)."""
    import glob
    import re
    import shutil
    import subprocess
    import tempfile
    sub = 'python-O'
    root = '/dev/shm' if os.path.isdir('/dev/shm') and \
        os.access('/dev/shm', os.W_OK) else tempfile.gettempdir()
    out = tempfile.mkdtemp(prefix='vcheck-O-', dir=root)
    try:
        env = dict(os.environ, VERIF_OUT=out, VERIF_CHILD='1',
                   VERIF_NPROC='4', PYTHONHASHSEED='0')
        p = subprocess.run(
            [sys.executable, '-O', '-m', 'vcheck', prop, '--tier', 'quick',
             '--only', ','.join(subs)],
            cwd=VERIF_DIR, env=env, stdout=subprocess.PIPE,
            stderr=subprocess.STDOUT, text=True)
        m = re.search(r'evaluations=(\d+) distinct_nontrivial=(\d+)', p.stdout)
        if p.returncode == 1:
            recs = []
            paths = re.findall(r'^VIOLATION property=\S+ replay=(\S+)$',
                               p.stdout, re.M)
            for f in sorted(set(paths)):
                if not os.path.isabs(f):
                    f = os.path.join(VERIF_DIR, f)
                try:
                    with open(f) as fh:
                        recs.append(json.load(fh))
                except (OSError, ValueError):
                    pass
            if not recs:
                raise HarnessError('python -O child reported a violation '
                                   'without a replay:\n' + p.stdout[-2000:])
            for r in recs:
                case = r.get('case')
                if isinstance(case, dict):
                    case = dict(case, python_flags=['-O'])
                v = Violation(r.get('sub', sub),
                              'under python -O: ' + r.get('msg', ''), case)
                col.fail(v)
            return
        if p.returncode != 0 or not m:
            raise HarnessError('python -O child failed (rc=%d):\n%s'
                               % (p.returncode, p.stdout[-2000:]))
        n, nt = int(m.group(1)), int(m.group(2))
        col.case(sub, (prop, '-O'), True, 'python -O',
                 {'python_flags': ['-O'], 'subs': list(subs),
                  'evaluations_in_child': n})
        col.count(sub, max(0, n - 1), 'python -O/evaluations')
        col.distinct_extra += max(0, nt - 1)
    finally:
        shutil.rmtree(out, ignore_errors=True)


# -- Hypothesis glue -------------------------------------------------------

def hyp_settings(max_examples, shrink=True, stateful_step_count=None):
    from hypothesis import HealthCheck, Phase, Verbosity, settings
    phases = [Phase.explicit, Phase.generate]
    if shrink:
        phases.append(Phase.shrink)
    kw = dict(max_examples=max_examples, database=None, deadline=None,
              derandomize=False, report_multiple_bugs=False,
              suppress_health_check=list(HealthCheck), phases=phases,
              verbosity=Verbosity.quiet, print_blob=False)
    if stateful_step_count is not None:
        kw['stateful_step_count'] = stateful_step_count
    return settings(**kw)


def run_given(col, strategy, oracle, seed, max_examples, shrink=True):
    """Search `strategy` for a case on which oracle(col, case) raises Violation.

    The Violation raised out of the final (shrunk) replay is recorded in the
    collector; any other exception is a harness error and propagates.
    """
    import warnings
    import hypothesis
    from hypothesis import given
    from hypothesis.errors import HypothesisWarning
    warnings.filterwarnings('ignore', category=HypothesisWarning)

    def body(case):
        if col.out_of_time():
            return
        oracle(col, case)

    test = hypothesis.seed(seed)(
        hyp_settings(max_examples, shrink)(given(strategy)(body)))
    try:
        test()
    except Violation as v:
        col.fail(v)
        return v
    except BaseException as e:
        v = _violation_inside(e)
        if v is None:
            raise
        # Hypothesis reports a failure it could not reproduce on replay
        # (e.g. it depends on set iteration order inside the code under
        # test) as a Flaky group; the violation was observed, so report it.
        col.notes.append('flaky: %s' % type(e).__name__)
        col.fail(v)
        return v
    return None


def _violation_inside(exc, depth=0):
    if isinstance(exc, Violation):
        return exc
    if depth > 4:
        return None
    for sub in getattr(exc, 'exceptions', ()) or ():
        v = _violation_inside(sub, depth + 1)
        if v is not None:
            return v
    for attr in ('__cause__', '__context__'):
        nxt = getattr(exc, attr, None)
        if nxt is not None:
            v = _violation_inside(nxt, depth + 1)
            if v is not None:
                return v
    return None


def run_machine(col, machine_cls, seed, max_examples, steps, shrink=True):
    import hypothesis
    from hypothesis.stateful import run_state_machine_as_test
    try:
        run_state_machine_as_test(
            hypothesis.seed(seed)(machine_cls),
            settings=hyp_settings(max_examples, shrink, steps))
    except Violation as v:
        col.fail(v)
        return v
    except BaseException as e:
        v = _violation_inside(e)
        if v is None:
            raise
        col.notes.append('flaky: %s' % type(e).__name__)
        col.fail(v)
        return v
    return None


# -- replay / evidence files ----------------------------------------------

def write_replay(prop, rec, directory=None):
    directory = directory or os.path.join(OUT_DIR, 'replays', 'found', prop)
    os.makedirs(directory, exist_ok=True)
    body = {'property': prop, 'sub': rec['sub'], 'msg': rec['msg'],
            'case': rec['case']}
    blob = json.dumps(body, sort_keys=True, indent=1, default=repr)
    name = '%s-%016x.json' % (rec['sub'].replace('/', '_'),
                              h64(blob.encode()))
    path = os.path.join(directory, name)
    with open(path, 'w') as f:
        f.write(blob + '\n')
    return path


def load_known_findings(prop):
    out = []
    path = os.path.join(VERIF_DIR, 'known_findings.json')
    if os.path.exists(path):
        with open(path) as f:
            out.extend(json.load(f).get('findings', []))
    return [e for e in out if e.get('property') == prop]


def write_evidence(prop, tier, seed, level, col, wall_s, violations, rule,
                   assumptions, extra=None):
    samples = []
    # one sample per class first, then fill up
    for label in sorted(col.samples):
        for s in col.samples[label][:1]:
            samples.append({'class': label, 'case': s})
    samples = samples[:24]
    cov = {
        'evaluations': int(col.evaluations),
        'distinct_nontrivial': len(col.nontrivial) + col.distinct_extra,
        'distinct_hashed': len(col.nontrivial),
        'distinct_by_construction': col.distinct_extra,
        'rule': rule,
        'samples': samples,
        'classes': dict(sorted(col.classes.items())),
        'subchecks': dict(sorted(col.subs.items())),
        'unspecified': dict(sorted(col.unspecified.items())),
        'excluded_known_findings': dict(sorted(col.excluded_known.items())),
        'seam_unreachable': dict(sorted(col.seam_unreachable.items())),
        'exhaustive_subchecks': dict(sorted(col.exhaustive.items())),
        'budget_skips': col.budget_skips,
        'notes': col.notes[:20],
    }
    if col.exhaustive and all(col.exhaustive.values()) and \
            set(col.exhaustive) >= set(col.subs):
        cov['exhaustive'] = True
    if extra:
        cov.update(extra)
    ev = {
        'property_id': prop, 'tier': tier, 'seed': int(seed), 'level': level,
        'coverage': cov, 'assumptions': assumptions,
        'wall_s': round(wall_s, 3), 'violations': int(violations),
    }
    d = os.path.join(OUT_DIR, 'evidence')
    os.makedirs(d, exist_ok=True)
    path = os.path.join(d, '%s.json' % prop)
    tmp = path + '.tmp'
    with open(tmp, 'w') as f:
        json.dump(ev, f, indent=1, sort_keys=True, default=repr)
        f.write('\n')
    os.replace(tmp, path)
    return path
