"""Offline bootstrap: make sure the third-party pieces the checks need are
importable, installing from the local wheelhouse into /verif/.deps if not."""

import importlib
import os
import subprocess
import sys

VERIF_DIR = os.path.dirname(os.path.dirname(os.path.abspath(__file__)))
DEPS = os.path.join(VERIF_DIR, '.deps')
WHEELS = '/opt/veriftools/wheels'


def have(mod):
    try:
        importlib.import_module(mod)
        return True
    except Exception:
        return False


def main():
    if os.path.isdir(DEPS):
        sys.path.insert(0, DEPS)
    rc = 0
    for mod, pkg, required in (('hypothesis', 'hypothesis', True),
                               ('atheris', 'atheris', False)):
        if have(mod):
            print('setup: %s importable' % mod)
            continue
        os.makedirs(DEPS, exist_ok=True)
        cmd = [sys.executable, '-m', 'pip', 'install', '--quiet',
               '--no-index', '--find-links', WHEELS, '--target', DEPS, pkg]
        p = subprocess.run(cmd)
        sys.path.insert(0, DEPS)
        importlib.invalidate_caches()
        ok = p.returncode == 0 and have(mod)
        print('setup: installed %s into .deps: %s' % (pkg, 'ok' if ok else
                                                        'FAILED'))
        if not ok and required:
            rc = 1
    return rc


if __name__ == '__main__':
    sys.exit(main())
