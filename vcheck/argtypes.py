"""Arguments as instances of subclasses.

A str, int or bytes argument may arrive as an instance of a subclass (an
IntEnum member, a config library's str subclass, a lazy-translation string).
With ACTIVE on, the call sites of the property modules pass every such
argument through wrap(); the oracles do not change - a subclass instance
with no behaviour of its own *is* that value.
"""

ACTIVE = [False]


class S(str):
    """str subclass without behaviour of its own"""
    __slots__ = ()


class I(int):                                               # noqa: E742
    """int subclass without behaviour of its own"""
    __slots__ = ()


class B(bytes):
    """bytes subclass without behaviour of its own"""
    __slots__ = ()


def wrap(x):
    if type(x) is str:
        return S(x)
    if type(x) is int:
        return I(x)
    if type(x) is bytes:
        return B(x)
    return x


def maybe(x):
    return wrap(x) if ACTIVE[0] else x


def maybe_all(args):
    return tuple(maybe(a) for a in args) if ACTIVE[0] else args


def unwrap(x):
    """plain value of a wrapped result (for comparisons that use type())"""
    if type(x) is S:
        return str.__str__(x)
    if type(x) is I:
        return int(x)
    if type(x) is B:
        return bytes(x)
    return x
