"""Small Hypothesis helpers shared by the text/version/spec properties
(C16, C17, C18).

* strategies(): `hypothesis.strategies` behind a memo, so that composites
  which spell their sub-strategies inline (`draw(st.sampled_from([...]))`)
  do not rebuild - and Hypothesis does not re-validate - the same strategy
  object on every draw (measured: ~40 % of the search time otherwise).
* search(): core.run_given in chunks with derived seeds, so that an
  exhausted budget also stops the *generation* and every family of a
  sharded check is cut alike.
"""

from vcheck import core


def _freeze(x):
    if isinstance(x, (list, tuple)):
        return (type(x).__name__[0],) + tuple(_freeze(v) for v in x)
    if isinstance(x, dict):
        return ('d',) + tuple(sorted((k, _freeze(v)) for k, v in x.items()))
    if isinstance(x, (set, frozenset)):
        raise TypeError('unordered argument')
    if isinstance(x, (str, bytes, int, float, bool)) or x is None:
        return (type(x).__name__, x)
    return ('id', id(x), x)         # strategies etc.: by identity (kept alive)


class Memo:
    MAX = 20000

    def __init__(self, st):
        self._st = st
        self._cache = {}

    def __getattr__(self, name):
        fn = getattr(self._st, name)
        if name in ('composite', 'data', 'deferred', 'builds', 'shared',
                    'randoms', 'runner'):
            return fn
        cache = self._cache

        def make(*a, **kw):
            try:
                key = (name, _freeze(a), _freeze(kw))
                hash(key)
            except TypeError:
                return fn(*a, **kw)
            hit = cache.get(key)
            if hit is None:
                if len(cache) > self.MAX:
                    cache.clear()
                hit = cache[key] = fn(*a, **kw)
            return hit
        make.__name__ = name
        self.__dict__[name] = make
        return make


_ST = None


def strategies():
    """The process-wide memoised view of hypothesis.strategies."""
    global _ST
    if _ST is None:
        from hypothesis import strategies as st
        _ST = Memo(st)
    return _ST


def search(col, strategy, oracle, seed, max_examples, chunk=500,
           shrink=True):
    """Hypothesis search in chunks of `chunk` examples; stops at the first
    violation (recorded in col by core.run_given) or when out of budget."""
    done = i = 0
    while done < max_examples and not col.out_of_time():
        n = min(chunk, max_examples - done)
        s = seed if i == 0 else core.derive_seed(seed, 'chunk', i)
        if core.run_given(col, strategy, oracle, s, n,
                          shrink=shrink) is not None:
            return
        done += n
        i += 1
