"""Run one Atheris campaign (vcheck.fuzz_img) as a Task."""

import json
import os
import shutil
import subprocess
import sys
import tempfile

from vcheck import core


def campaign(col, target, seed, runs, max_len, seeds='small', max_time=150):
    sub = 'atheris'
    try:
        import atheris  # noqa
    except Exception:
        col.seam(sub, 'atheris not importable (run vcheck.setup)')
        return
    root = '/dev/shm' if os.access('/dev/shm', os.W_OK) else None
    work = tempfile.mkdtemp(prefix='vcheck-fuzz-', dir=root)
    out = os.path.join(work, 'violation.json')
    stats_p = os.path.join(work, 'stats.json')
    try:
        env = dict(os.environ, PYTHONHASHSEED='0')
        cmd = [sys.executable, '-m', 'vcheck.fuzz_img', '--target', target,
               '--out', out, '--corpus', os.path.join(work, 'corpus'),
               '--stats', stats_p, '--seeds', seeds, '--',
               '-runs=%d' % runs, '-seed=%d' % (seed % (2 ** 31 - 1) + 1),
               '-max_len=%d' % max_len, '-max_total_time=%d' % max_time,
               '-timeout=120', '-rss_limit_mb=4096', '-print_final_stats=0',
               '-artifact_prefix=%s/' % work]
        p = subprocess.run(cmd, cwd=core.VERIF_DIR, env=env,
                           stdout=subprocess.PIPE, stderr=subprocess.STDOUT,
                           text=True)
        stats = {}
        if os.path.exists(stats_p):
            with open(stats_p) as f:
                stats = json.load(f)
        execs = stats.get('execs', 0)
        col.count(sub, execs, 'target=%s/seeds=%s' % (target, seeds))
        col.distinct_extra += stats.get('nontrivial', 0)
        for k, v in (stats.get('known') or {}).items():
            col.excluded_known[k] += v
        for k, v in (stats.get('unspecified') or {}).items():
            col.unspecified[k] += v
        col.case(sub, ('campaign', target, seed, seeds), True, 'campaign',
                 {'target': target, 'libfuzzer_seed': seed, 'execs': execs,
                  'max_len': max_len, 'seeds': seeds,
                  'schedule_classes': {k: v for k, v in
                                       (stats.get('classes') or {}).items()
                                       if 'sched=' in k}})
        if p.returncode == 77 and os.path.exists(out):
            with open(out) as f:
                rec = json.load(f)
            raise core.Violation(rec['sub'], rec['msg'], rec['case'])
        if p.returncode != 0:
            tail = '\n'.join(p.stdout.splitlines()[-15:])
            raise core.HarnessError('atheris campaign %s failed rc=%d:\n%s'
                                    % (target, p.returncode, tail))
    finally:
        shutil.rmtree(work, ignore_errors=True)
