"""C01 - inspection verdict depends on the bytes only, never on the chunking.

Sub-checks
  engine/direct   exhaustive: every chunking of short position-coded streams
                  through CaptureRegion / EndCaptureRegion.capture()
  engine/insp     the same through a minimal FileInspector subclass (static
                  regions, empty chunks, region_complete, finish)
  engine/chain    regions defined mid-stream from earlier regions (A -> B -> C
                  by forward pointers), every chunking
  inspectors      real inspectors, metamorphic: verdict under a generated
                  schedule (with queries) == verdict under 512-byte chunks,
                  for all ten inspectors; retention fidelity after each chunk
  cuts            deterministic: every single cut / every pair of boundary-
                  aimed cuts of one well-formed image per format
  wrapper         InspectWrapper.format/formats after close() equal across
                  read sizes, read() vs iteration, empty reads
"""

import itertools
import os
import struct

from vcheck import chunking, core, imgdrive
from vcheck.core import Task, Violation

ID = 'C01'
LEVEL = 'exploration'
BUDGET = {'quick': 75, 'thorough': 900}
# deterministic sub-checks repeated in a `python -O` child (core.optimized_child)
OPT_SUBS = ('cuts', 'engine/direct')
# documented call interface the generated calls rely on (vcheck/callstyle.py)
INTERFACE = [('oslo_utils.imageutils.format_inspector', None)]
RULE = ('engine: every chunking (2^(n-1) compositions, plus empty chunks) of '
        'position-coded streams up to length n for every region offset/'
        'length/min_length and end-region size, also through a FileInspector '
        'subclass and with regions defined mid-stream by forward pointers; '
        'inspectors/wrapper: Hypothesis draws content (valid images of the '
        'ten formats from their layouts, trait mixes, field-mutated, '
        'truncated, extended, polyglot overlays, unstructured) x schedule '
        '(giant, fixed sizes 1..1MiB, cuts at +-1 of structure boundaries '
        'singly/in pairs/many, random, empty chunks) x query plan; verdicts '
        'of all ten inspectors compared with the 512-byte reference '
        'schedule. Non-trivial: >= 2 non-empty chunks and (a cut within +-1 '
        'of a structure boundary, or content mutated/truncated/polyglot, or '
        'a chunk spanning dependent structures); distinct by (content hash, '
        'schedule, query plan).')
ASSUMPTIONS = [
    'relational oracle only: no expected verdict, so a defect that is the '
    'same under every schedule is invisible here (C02/C03/C07 cover those)',
    'inspectors are driven as InspectWrapper drives them: not fed again '
    'after an exception, finish() at the end',
    'streams are bounded (<= ~3 MiB); 1-byte schedules only below 70 KiB in '
    'the quick tier',
    'recorded findings (known_findings.json) are routed by predicate: for '
    'those (inspector, content) classes only retention fidelity of the '
    'other inspectors is still judged',
]

KI = 1024


# ---------------------------------------------------------------- predicates

def _is_text_byte(b):
    # mirrors "printable or whitespace ASCII"
    return b < 128 and (chr(b).isprintable() or chr(b).isspace())


def vmdk_text_mode(data):
    """F-c: stream does not start with KDMV and what VMDK reads as 'header'
    may be all ASCII text under some chunking."""
    if data[:4] == b'KDMV' or not data:
        return False
    return all(_is_text_byte(b) for b in data[:64])


def vmdk_short_footer(data):
    """F-n: footer (end) region created mid-stream on a stream so short that
    the window overlaps bytes already consumed."""
    return (data[:4] == b'KDMV' and len(data) >= 64 and
            data[56:64] == b'\xff' * 8 and len(data) < 64 + 1536 + 512)


def vhdx_pointers(data):
    """Independent walk of the VHDX tables: returns (meta_offset,
    vds_start, table_need_end) or None where not determinable."""
    if len(data) < 256 * KI:     # the walk does not depend on the ident
        return None
    rt = 192 * KI
    sig, _ck, count, _r = struct.unpack('<4sIII', data[rt:rt + 16])
    if sig != b'regi' or count >= 2048:
        return None
    want = b'\x06\xa2\x7c\x8b\x90\x47\x9a\x4b\xb8\xfe\x57\x5f\x05\x0f\x88\x6e'
    mo = None
    for i in range(count):
        e = data[rt + 16 + 32 * i: rt + 48 + 32 * i]
        if e[:16] == want:
            mo = struct.unpack('<Q', e[16:24])[0]
            break
    if mo is None:
        return None
    hdr = data[mo:mo + 32]
    if len(hdr) < 32 or hdr[:8] != b'metadata':
        return (mo, None, None)
    mcount = struct.unpack('<H', hdr[10:12])[0]
    need_end = mo + 32 + 32 * mcount
    vds = b'\x24\x42\xa5\x2f\x1b\xcd\x76\x48\xb2\x11\x5d\xbe\xd8\x3b\xf4\xb8'
    if mcount >= 2048:
        return (mo, None, need_end)
    for i in range(mcount):
        e = data[mo + 32 + 32 * i: mo + 64 + 32 * i]
        if len(e) < 32:
            break
        if e[:16] == vds:
            io = struct.unpack('<I', e[16:20])[0]
            return (mo, mo + io, need_end)
    return (mo, None, need_end)


def vhdx_backward_pointer(data):
    """F-b: a table points at bytes that lie before the point of the stream
    where the pointer becomes known."""
    p = vhdx_pointers(data)
    if p is None:
        return False
    mo, vds_start, need_end = p
    if mo < 256 * KI:
        return True
    if vds_start is not None and need_end is not None and \
            vds_start < need_end:
        return True
    return False


def routed(name, data):
    if os.environ.get('VERIF_NOROUTE'):      # experiments only
        return None
    if name == 'vmdk' and vmdk_text_mode(data):
        return 'vmdk_text_mode'
    if name == 'vmdk' and vmdk_short_footer(data):
        return 'vmdk_short_footer'
    if name == 'vhdx' and vhdx_backward_pointer(data):
        return 'vhdx_backward_pointer'
    return None


def _rec_data(rec):
    from vcheck import imgstrat
    case = rec.get('case') or {}
    if 'content' in case:
        return imgstrat.realize(case['content'])[0]
    return None


def _known(name_wanted):
    def pred(rec):
        case = rec.get('case') or {}
        data = _rec_data(rec)
        if data is None:
            return False
        insp = case.get('inspector')
        if insp is not None:
            return routed(insp, data) == name_wanted
        return False
    return pred


KNOWN = {
    'vmdk_text_mode': _known('vmdk_text_mode'),
    'vmdk_short_footer': _known('vmdk_short_footer'),
    'vhdx_backward_pointer': _known('vhdx_backward_pointer'),
}


# ------------------------------------------------------------------- engine

def compositions(n):
    """All ordered ways of writing n as a sum of positive parts."""
    if n == 0:
        yield ()
        return
    for mask in range(1 << (n - 1)):
        parts = []
        run = 1
        for i in range(n - 1):
            if mask >> i & 1:
                parts.append(run)
                run = 1
            else:
                run += 1
        parts.append(run)
        yield tuple(parts)


def with_empties(parts, max_empty):
    yield parts
    if max_empty >= 1:
        for i in range(len(parts) + 1):
            one = parts[:i] + (0,) + parts[i:]
            yield one
            if max_empty >= 2:
                for j in range(i + 1, len(one) + 1):
                    yield one[:j] + (0,) + one[j:]


def _stream(n):
    return bytes(range(1, n + 1))


def _expect_plain(stream, off, ln, pos):
    return stream[off:off + ln][:max(0, pos - off)]


def engine_direct(col, n, max_empty):
    F = imgdrive.fi()
    sub = 'engine/direct'
    stream = _stream(n)
    specs = []
    for off in range(0, n + 3):
        for ln in range(0, n + 3):
            specs.append(('plain', off, ln, None))
            for ml in sorted({1, max(1, ln - 1), ln}):
                if 0 < ml <= ln:
                    specs.append(('min', off, ln, ml))
    for k in range(1, n + 3):
        specs.append(('end', k, k, None))
    total = 0
    nt = 0
    for parts in compositions(n):
        for sched in with_empties(parts, max_empty):
            regions = []
            for kind, off, ln, ml in specs:
                if kind == 'end':
                    regions.append(F.EndCaptureRegion(off))
                else:
                    regions.append(F.CaptureRegion(off, ln, min_length=ml))
            pos = 0
            fed = False
            for sz in sched:
                chunk = stream[pos:pos + sz]
                pos += sz
                fed = True
                for (kind, off, ln, ml), r in zip(specs, regions):
                    if kind == 'min' and r.complete:
                        continue        # "at least until complete"
                    r.capture(chunk, pos)
                    if kind == 'end':
                        want = stream[:pos][-off:]
                        ok = (bytes(r.data) == want and
                              r.offset == pos - len(r.data) and
                              not r.complete)
                    else:
                        want = _expect_plain(stream, off, ln, pos)
                        if kind == 'plain':
                            ok = (bytes(r.data) == want and
                                  bool(r.complete) == (len(want) == ln))
                        else:
                            # stopped being fed once complete: a prefix of
                            # the slice, complete iff min_length reached
                            ok = (want.startswith(bytes(r.data)) and
                                  bool(r.complete) == (len(r.data) >= ml) and
                                  (r.complete or bytes(r.data) == want))
                    if not ok:
                        raise Violation(sub, '%s region off=%d len=%d min=%r '
                                        'holds %r after position %d, stream '
                                        'slice is %r (complete=%r)'
                                        % (kind, off, ln, ml, bytes(r.data),
                                           pos, want, r.complete),
                                        {'n': n, 'schedule': list(sched),
                                         'spec': [kind, off, ln, ml]})
            for (kind, off, ln, ml), r in zip(specs, regions):
                if kind == 'end':
                    r.finish()
                    want = stream[-off:] if n else b''
                    if fed and (bytes(r.data) != want or
                                bool(r.complete) != (len(want) == off)):
                        raise Violation(sub, 'end region k=%d after finish '
                                        'holds %r complete=%r, stream tail '
                                        'is %r' % (off, bytes(r.data),
                                                   r.complete, want),
                                        {'n': n, 'schedule': list(sched),
                                         'spec': [kind, off, ln, ml]})
            total += len(specs)
            if len([s for s in sched if s]) >= 2:
                nt += len(specs)
    col.count(sub, total, 'n=%d' % n)
    col.distinct_extra += nt
    col.case(sub, ('n', n, max_empty), True, 'sample',
             {'n': n, 'regions': len(specs), 'max_empty_chunks': max_empty,
              'example_schedule': [1] * n})
    col.exhaustive.setdefault(sub, True)


def _probe_class(F, static, chain=None):
    """A minimal inspector using only the public engine API."""

    class Probe(F.FileInspector):
        NAME = 'probe'

        def _initialize(self):
            self.completed = []
            for name, kind, off, ln, ml in static:
                if kind == 'end':
                    self.new_region(name, F.EndCaptureRegion(off))
                else:
                    self.new_region(name, F.CaptureRegion(off, ln,
                                                          min_length=ml))
            self.add_safety_check(F.SafetyCheck.null())

        def post_process(self):
            if not chain:
                return
            (pb, lb), (pc, lc) = chain
            if self.region('A').complete and not self.has_region('B'):
                self.new_region('B', F.CaptureRegion(pb, lb))
            elif (self.has_region('B') and self.region('B').complete and
                  not self.has_region('C')):
                self.new_region('C', F.CaptureRegion(pc, lc))

        def region_complete(self, name):
            self.completed.append(name)

        @property
        def format_match(self):
            return True

    return Probe


def engine_insp(col, n, max_empty):
    F = imgdrive.fi()
    sub = 'engine/insp'
    stream = _stream(n)
    static = []
    for off in range(0, n + 2):
        for ln in range(0, n + 2):
            static.append(('p%d_%d' % (off, ln), 'plain', off, ln, None))
    seen = set()
    for off in (0, 1, n // 2):
        for ln in (2, n):
            for ml in (1, ln):
                if 0 < ml <= ln and (off, ln, ml) not in seen:
                    seen.add((off, ln, ml))
                    static.append(('m%d_%d_%d' % (off, ln, ml), 'min', off,
                                   ln, ml))
    for k in range(1, n + 2):
        static.append(('e%d' % k, 'end', k, k, None))
    Probe = _probe_class(F, static)
    total = 0
    nt = 0

    def bad(msg, sched, extra=None):
        raise Violation(sub, msg, dict({'n': n, 'schedule': list(sched)},
                                       **(extra or {})))

    for parts in compositions(n):
        for sched in with_empties(parts, max_empty):
            p = Probe()
            pos = 0
            fed = False
            first_complete = {}
            for ci, sz in enumerate(sched):
                chunk = stream[pos:pos + sz]
                pos += sz
                fed = True
                p.eat_chunk(chunk)
                info = p.context_info
                for name, kind, off, ln, ml in static:
                    r = p.region(name)
                    d = bytes(r.data)
                    if info[name] != len(d):
                        bad('context_info[%s]=%r but region holds %d bytes'
                            % (name, info[name], len(d)), sched)
                    if kind == 'end':
                        ok = d == stream[:pos][-off:] and not r.complete
                    elif kind == 'plain':
                        want = _expect_plain(stream, off, ln, pos)
                        ok = d == want and bool(r.complete) == (len(d) == ln)
                    else:
                        want = _expect_plain(stream, off, ln, pos)
                        ok = (want.startswith(d) and
                              bool(r.complete) == (len(d) >= ml) and
                              (r.complete or d == want))
                    if not ok:
                        bad('region %s (%s off=%d len=%d min=%r) holds %r at '
                            'position %d' % (name, kind, off, ln, ml, d, pos),
                            sched, {'region': name})
                    if kind != 'end' and r.complete and ln > 0 and \
                            name not in first_complete:
                        first_complete[name] = ci
                    if d != stream[r.offset:r.offset + len(d)]:
                        bad('fidelity: region %s offset %d holds %r'
                            % (name, r.offset, d), sched, {'region': name})
            want_cb = sorted(first_complete)
            if sorted(p.completed) != want_cb:
                bad('region_complete fired for %r, expected exactly once for '
                    '%r' % (sorted(p.completed), want_cb), sched)
            if bool(p.complete) != all(p.region(s[0]).complete
                                       for s in static):
                bad('complete disagrees with its regions', sched)
            p.finish()
            for name, kind, off, ln, ml in static:
                if kind == 'end':
                    r = p.region(name)
                    want = stream[-off:] if n else b''
                    if fed and (bytes(r.data) != want or
                                bool(r.complete) != (len(want) == off)):
                        bad('end region %s after finish holds %r complete=%r'
                            % (name, bytes(r.data), r.complete), sched)
            for tail in (b'', b'x'):
                try:
                    p.eat_chunk(tail)
                    bad('eat_chunk(%r) accepted after finish()' % tail, sched)
                except RuntimeError:
                    pass
            total += len(static)
            if len([s for s in sched if s]) >= 2:
                nt += len(static)
    col.count(sub, total, 'n=%d' % n)
    col.distinct_extra += nt
    col.case(sub, ('n', n, max_empty), True, 'sample',
             {'n': n, 'regions': len(static), 'max_empty_chunks': max_empty})
    col.exhaustive.setdefault(sub, True)


def engine_chain(col, n, la, lb, lc):
    """A at 0 (length la) -> B at pb (length lb) -> C at pc (length lc),
    pointers known only once the previous region is complete; forward
    pointers at every distance."""
    F = imgdrive.fi()
    sub = 'engine/chain'
    stream = _stream(n)
    total = 0
    nt = 0
    for pb in range(la, n + 1):
        for pc in range(pb + lb, n + 2):
            Probe = _probe_class(F, [('A', 'plain', 0, la, None)],
                                 chain=((pb, lb), (pc, lc)))
            ref = None
            for parts in compositions(n):
                p = Probe()
                pos = 0
                for sz in parts:
                    p.eat_chunk(stream[pos:pos + sz])
                    pos += sz
                    for name in list(p.context_info):
                        r = p.region(name)
                        d = bytes(r.data)
                        if d != stream[r.offset:r.offset + len(d)]:
                            raise Violation(
                                sub, 'fidelity: region %s at offset %d holds '
                                '%r, stream has %r there'
                                % (name, r.offset, d,
                                   stream[r.offset:r.offset + len(d)]),
                                {'n': n, 'la': la, 'lb': lb, 'lc': lc,
                                 'pb': pb, 'pc': pc,
                                 'schedule': list(parts)})
                p.finish()
                got = (bool(p.complete), sorted(p.context_info.items()),
                       sorted(p.completed))
                # what the bytes alone determine
                want_regions = {'A': min(la, n)}
                if n >= la:
                    want_regions['B'] = max(0, min(lb, n - pb))
                    if n >= pb + lb:
                        want_regions['C'] = max(0, min(lc, n - pc))
                want = (all(want_regions.get(k) == ln for k, ln in
                            (('A', la), ('B', lb), ('C', lc))
                            if k in want_regions),
                        sorted(want_regions.items()))
                if got[:2] != want:
                    raise Violation(
                        sub, 'chain A(0,%d)->B(%d,%d)->C(%d,%d) on %d bytes '
                        'cut as %r: (complete, retained) = %r, the bytes '
                        'determine %r' % (la, pb, lb, pc, lc, n, list(parts),
                                          got[:2], want),
                        {'n': n, 'la': la, 'lb': lb, 'lc': lc, 'pb': pb,
                         'pc': pc, 'schedule': list(parts)})
                if ref is None:
                    ref = got
                total += 1
                if len(parts) >= 2:
                    nt += 1
    col.count(sub, total, 'n=%d' % n)
    col.distinct_extra += nt
    col.case(sub, ('n', n, la, lb, lc), True, 'sample',
             {'n': n, 'A': [0, la], 'B_len': lb, 'C_len': lc,
              'pointers': 'every pb >= %d, pc >= pb+%d' % (la, lb)})
    col.exhaustive.setdefault(sub, True)


# ------------------------------------------------------------ real inspectors

REF = ['fixed', 512]


def _case_strategy(fmts, allow_tiny, max_len):
    from hypothesis import strategies as st
    from vcheck import imgstrat

    @st.composite
    def cases(draw):
        content = draw(imgstrat.any_content(fmts))
        data, img = imgstrat.realize(content)
        if len(data) > max_len:
            content = dict(content, cut=max_len)
            data, img = imgstrat.realize(content)
        bounds = list(img.boundaries) if img is not None else []
        bounds += [4, 64, 512, 592, 1024, 34816]
        sched = draw(chunking.schedules(
            len(data), bounds, allow_tiny=allow_tiny and len(data) <= 70000))
        nchunks = len(chunking.sizes_of(sched, len(data)))
        if draw(st.booleans()):
            q = draw(st.sets(st.integers(0, max(0, min(nchunks, 64) - 1)),
                             max_size=4))
            queries = sorted(q)
        else:
            queries = None
        fmt0 = content['base'][0] if 'base' in content else 'raw'
        allowed = draw(st.sampled_from([None, None, None, [fmt0, 'raw'],
                                        ['raw'], [fmt0],
                                        ['luks', 'raw', 'qcow2'],
                                        ['gpt', 'raw', 'vmdk']]))
        return {'content': content, 'schedule': sched, 'queries': queries,
                'allowed': allowed, 'wsample': draw(st.booleans())}
    return cases()


def check_inspectors(col, case, sub='inspectors', names=None, route=True):
    from vcheck import imggen, imgstrat
    data, img = imgstrat.realize(case['content'])
    sched = case['schedule']
    queries = case.get('queries')
    qset = set(queries) if queries is not None else None
    names = names or imggen.FORMATS
    imgdrive.tracing_for((core.h64(data), repr(sched)))
    kind = case['content'].get('kind', '?')
    bounds = list(img.boundaries) if img is not None else [4, 64, 512]
    n = len(data)
    multi = chunking.nonempty_chunks(sched, n) >= 2
    aimed = chunking.near_boundary(sched, n, bounds)
    nontrivial = multi and (aimed or kind in ('mutated', 'truncated',
                                              'polyglot', 'traits'))
    for name in names:
        route_hit = routed(name, data) if route else None
        v_ref, _i, f_ref = imgdrive.drive(name, data, REF, fidelity=True,
                                           kind='bytes')
        v_got, _i, f_got = imgdrive.drive(name, data, sched, queries=qset,
                                          fidelity=True)
        if route_hit:
            col.known(sub, route_hit)
            continue
        if f_ref or f_got:
            f = (f_got or f_ref)[0]
            raise Violation(
                sub, '%s inspector: region %r (offset %d, %d bytes) does not '
                'hold the stream bytes at its offsets (after chunk %r, %s '
                'schedule)' % (name, f[1], f[2], f[3], f[0],
                               'generated' if f_got else 'reference'),
                dict(case, inspector=name, what='fidelity'))
        if (v_ref[0] or v_got[0]) and v_got[:2] == v_ref[:2]:
            # The inspector raised and (as InspectWrapper does) was not fed
            # again: the whole stream was never presented to it, so the
            # statement fixes only that it fails the same way and matches
            # the same way; what it retained of the failing chunk is not
            # covered.
            if v_got != v_ref:
                col.unspec(sub, 'state after the inspector raised')
            continue
        if v_got != v_ref:
            raise Violation(
                sub, '%s inspector on %d bytes (%s): verdict (error, match, '
                'complete, virtual_size, safety) is %r under schedule %s '
                'but %r under 512-byte chunks'
                % (name, n, kind, v_got, _short(sched), v_ref),
                dict(case, inspector=name, what='verdict'))
    col.case(sub, (core.h64(data), sched, queries), nontrivial,
             ['kind=' + kind, 'sched=' + _sched_class(sched, n, bounds),
              'queries' if queries else 'noqueries',
              'len>=256K' if n >= 256 * KI else 'len<256K'],
             {'content': _brief(case['content']), 'len': n,
              'schedule': _short(sched), 'queries': queries})


def _short(sched):
    if sched[0] == 'fixed':
        return sched
    s = sched[1]
    return ['sizes', s if len(s) <= 12 else s[:12] + ['...%d more'
                                                      % (len(s) - 12)]]


def _brief(content):
    c = dict(content)
    if 'bytes' in c and len(c['bytes']) > 120:
        c['bytes'] = c['bytes'][:120] + '...'
    return c


def _sched_class(sched, n, bounds):
    if sched[0] == 'fixed':
        return 'fixed%d' % sched[1]
    ne = chunking.nonempty_chunks(sched, n)
    empties = len(sched[1]) - ne
    c = 'giant' if ne <= 1 else ('aimed' if chunking.near_boundary(
        sched, n, bounds) else 'random')
    return c + ('+empty' if empties else '')


def inspectors(col, seed, max_examples, fmts, allow_tiny, max_len):
    def oracle(col, case):
        check_inspectors(col, case)
    core.run_given(col, _case_strategy(fmts, allow_tiny, max_len), oracle,
                   seed, max_examples)


def check_wrapper(col, case, sub='wrapper'):
    from vcheck import imggen, imgstrat
    data, img = imgstrat.realize(case['content'])
    sched = case['schedule']
    n = len(data)
    base = [f for f in imggen.FORMATS
            if not case.get('allowed') or f in case['allowed']]
    allowed = [f for f in base if not routed(f, data)] or ['raw']
    for f in base:
        if f not in allowed:
            col.known(sub, routed(f, data))
    # reference: 512-byte reads, no queries in between; the generated run
    # may poll format/formats after every read (wsample)
    imgdrive.tracing_for((core.h64(data), repr(sched), 'w'))
    ref = imgdrive.drive_wrapper(data, REF, 'read', allowed=allowed,
                                 kind='bytes')
    ws = bool(case.get('wsample'))
    outs = {'read': imgdrive.drive_wrapper(data, sched, 'read',
                                           allowed=allowed, sample=ws),
            'iter': imgdrive.drive_wrapper(data, sched, 'iter',
                                           allowed=allowed, sample=ws),
            'short': imgdrive.drive_wrapper(data, sched, 'short',
                                            allowed=allowed, sample=ws)}

    def detected_verdict(res):
        """Verdict of the inspector the wrapper settled on (None if none, or
        if that inspector raises on this content: post-error state is not
        covered by the statement)."""
        name = res[0][0]
        if name in (None, 'ImageFormatError') or name.startswith('raises:'):
            return None
        for s in (REF, sched):
            if imgdrive.drive(name, data, s)[0][0] is not None:
                col.unspec(sub, 'detected inspector raised')
                return None
        return imgdrive.verdict(res[4].format)[1:]

    ref_v = detected_verdict(ref)
    for mode, got in outs.items():
        if got[2] != data and got[3] is None:
            raise Violation(sub, 'wrapper (%s) returned different bytes'
                            % mode, dict(case, mode=mode))
        if got[0] != ref[0] or got[3] != ref[3]:
            raise Violation(
                sub, 'InspectWrapper over %d bytes: (format, formats)=%r '
                'error=%r reading by %s with %s, but %r error=%r with '
                '512-byte reads' % (n, got[0], got[3], mode, _short(sched),
                                    ref[0], ref[3]),
                dict(case, mode=mode, allowed=allowed))
        got_v = detected_verdict(got)
        if ref_v is not None and got_v is not None and got_v != ref_v:
            raise Violation(
                sub, 'InspectWrapper over %d bytes settles on %s with '
                '(match, complete, virtual_size, safety)=%r reading by %s '
                'with %s, but %r with 512-byte reads'
                % (n, ref[0][0], got_v, mode, _short(sched), ref_v),
                dict(case, mode=mode, allowed=allowed))
    kind = case['content'].get('kind', '?')
    bounds = list(img.boundaries) if img is not None else [4, 64, 512]
    col.case(sub, (core.h64(data), sched),
             chunking.nonempty_chunks(sched, n) >= 2,
             ['kind=' + kind, 'sched=' + _sched_class(sched, n, bounds),
              'outcome=' + str(ref[0][0])],
             {'content': _brief(case['content']), 'len': n,
              'schedule': _short(sched), 'outcome': ref[0]})


def wrapper(col, seed, max_examples, fmts, allow_tiny, max_len):
    def oracle(col, case):
        check_wrapper(col, case)
    core.run_given(col, _case_strategy(fmts, allow_tiny, max_len), oracle,
                   seed, max_examples)


def cuts_family(col, fmt, params):
    """Deterministic net under the random search: for one well-formed
    image, every single cut position (small images) or every cut at +-1 of a
    structure boundary (large ones), every pair of boundary-aimed cuts, and
    the boundary-aimed single cuts again with a query after every chunk."""
    from vcheck import imggen
    sub = 'cuts'
    img = imggen.build(fmt, params)
    n = len(img.data)
    content = {'base': [fmt, params], 'kind': 'valid'}
    cands = chunking.boundary_cut_candidates(n, img.boundaries)
    small = n <= 4096
    names = None if small else [fmt]
    singles = range(1, n) if small else cands
    for c in singles:
        check_inspectors(col, {'content': content,
                               'schedule': chunking.from_cuts(n, [c]),
                               'queries': None}, sub, names=names)
    for c in cands:
        check_inspectors(col, {'content': content,
                               'schedule': chunking.from_cuts(n, [c]),
                               'queries': [0, 1]}, sub, names=names)
    if len(cands) > 40:
        step = -(-len(cands) // 40)
        cands = cands[::step]
    for i, a in enumerate(cands):
        for b in cands[i + 1:]:
            check_inspectors(col, {'content': content,
                                   'schedule': chunking.from_cuts(n, [a, b]),
                                   'queries': None}, sub, names=[fmt])
    for k in (1, 3, 17, 64) if small else ():
        check_inspectors(col, {'content': content, 'schedule': ['fixed', k],
                               'queries': list(range(0, min(n // k + 1, 64)))},
                         sub, names=[fmt])
    # the same content with trailing payload through InspectWrapper, format
    # polled after every read, unrestricted and restricted to {fmt, raw}
    ext = dict(content, extend=[5, 3000], kind='extended')
    for allowed in (None, [fmt, 'raw']):
        for k in ((64, 512, 4096) if small else (65536,)):
            check_wrapper(col, {'content': ext, 'schedule': ['fixed', k],
                                'allowed': allowed, 'wsample': True},
                          'cuts')
    col.exhaustive.setdefault(sub, True)


def byte_cuts_family(col, fmt, params):
    """Deterministic: every byte of the structured part of one small image
    (the first 96 bytes and every byte of a documented header field,
    imggen.FIELDS) is damaged in turn (inverted, and zeroed), and the damaged
    image is cut at every position within 10 bytes of the damage.  Whatever
    an inspector concludes from a damaged field - including safety checks
    added later - it has to conclude under every cut."""
    from vcheck import imggen
    sub = 'bytecuts'
    img = imggen.build(fmt, params)
    base = img.data
    n = len(base)
    pos = set(range(0, min(n, 96)))
    for off, ln, _e in imggen.FIELDS.get(fmt, ()):
        pos.update(range(off, min(n, off + ln)))
    for p in sorted(pos):
        for val in (base[p] ^ 0xFF, 0):
            if val == base[p]:
                continue
            content = {'base': [fmt, params], 'kind': 'mutated',
                       'edits': [[p, '%02x' % val]]}
            for c in range(max(1, p - 10), min(n - 1, p + 10) + 1):
                check_inspectors(col, {'content': content,
                                       'schedule': chunking.from_cuts(n, [c]),
                                       'queries': None}, sub, names=[fmt])
    col.exhaustive.setdefault(sub, True)


CUTS_IMAGES = (
    ('qcow2', dict(length=1024)), ('qcow2', dict(version=2, length=600)),
    ('vhd', dict(length=700)), ('vdi', dict(length=700)),
    ('qed', dict(length=600)), ('gpt', dict(length=1024)),
    ('luks', dict(payload_offset=2, payload=100)),
    ('vmdk', dict()), ('vmdk', dict(footer=True)),
    ('vmdk', dict(footer=True, desc_num=2, grain_data=100)),
    ('vmdk', dict(exact_fill=True, final_newline=False, type_last=True)),
    ('iso', dict(tail=100)), ('vhdx', dict()),
    ('vhdx', dict(meta_before=3, region_before=2, item_offset=65544)),
    # the size-carrying entry last in its table
    ('vhdx', dict(meta_before=2, meta_after=0, region_before=1,
                  region_after=0)),
)


# --------------------------------------------------------------------- tasks

SMALL = ('raw', 'qcow2', 'vhd', 'vmdk', 'vdi', 'qed', 'gpt', 'luks')


def imggen_len(fmt, params):
    from vcheck import imggen
    return imggen.build(fmt, params).data


def tasks(tier, seed):
    out = []
    nmax = 9 if tier == 'quick' else 12
    for n in range(0, nmax + 1):
        out.append(Task('engine/direct', engine_direct, n=n,
                        max_empty=2 if n <= 6 else (1 if n <= 8 else 0)))
    for n in range(0, (8 if tier == 'quick' else 10) + 1):
        out.append(Task('engine/insp', engine_insp, n=n,
                        max_empty=2 if n <= 5 else (1 if n <= 7 else 0)))
    for n in range(3, (9 if tier == 'quick' else 11) + 1):
        for la, lb, lc in ((1, 1, 1), (2, 1, 2), (1, 2, 1), (2, 3, 1)):
            if la + lb + lc <= n:
                out.append(Task('engine/chain', engine_chain, n=n, la=la,
                                lb=lb, lc=lc))
    for fmt, params in CUTS_IMAGES:
        out.append(Task('cuts', cuts_family, fmt=fmt, params=params))
        if len(imggen_len(fmt, params)) <= 4096:
            out.append(Task('bytecuts', byte_cuts_family, fmt=fmt,
                            params=params))
    if tier == 'quick':
        plan = [(SMALL, True, 70000, 400, 5), (('iso',), True, 40000, 150, 2),
                (('vhdx',), False, 700 * KI, 120, 5)]
        wplan = [(SMALL + ('iso',), True, 70000, 250, 2),
                 (('vhdx',), False, 700 * KI, 70, 2)]
    else:
        plan = [(SMALL, True, 70000, 2500, 6), (('iso',), True, 40000, 600, 2),
                (('vhdx',), False, 3 * 1024 * KI, 500, 8)]
        wplan = [(SMALL + ('iso',), True, 70000, 1200, 3),
                 (('vhdx',), False, 3 * 1024 * KI, 250, 3)]
    for fmts, tiny, max_len, ex, shards in plan:
        for i in range(shards):
            out.append(Task('inspectors', inspectors,
                            seed=core.derive_seed(seed, ID, 'insp', fmts, i),
                            max_examples=ex, fmts=fmts, allow_tiny=tiny,
                            max_len=max_len))
    for fmts, tiny, max_len, ex, shards in wplan:
        for i in range(shards):
            out.append(Task('wrapper', wrapper,
                            seed=core.derive_seed(seed, ID, 'wrap', fmts, i),
                            max_examples=ex, fmts=fmts, allow_tiny=tiny,
                            max_len=max_len))
    if tier == 'thorough':
        from vcheck import fuzzrun
        for i, (kind, max_len) in enumerate(
                [('small', 40000)] * 8 + [('empty', 4096)] * 4 +
                [('vhdx', 340000)] * 4):
            out.append(Task('atheris', fuzzrun.campaign, target='c01',
                            seed=core.derive_seed(seed, ID, 'atheris', i),
                            runs=200000, max_len=max_len, seeds=kind,
                            max_time=170))
    return out


def replay(rec):
    case = rec['case']
    sub = rec.get('sub', '')
    col = core.Collector()
    if sub.startswith('engine/direct'):
        _replay_engine_direct(case)
    elif sub.startswith('engine/insp'):
        engine_insp(col, case['n'], 2 if case['n'] <= 5 else 1)
    elif sub.startswith('engine/chain'):
        engine_chain(col, case['n'], case['la'], case['lb'], case['lc'])
    elif sub.startswith('wrapper'):
        check_wrapper(col, case)
    else:
        names = [case['inspector']] if case.get('inspector') else None
        check_inspectors(col, case, names=names,
                         route=not rec.get('probe'))


def _replay_engine_direct(case):
    engine_direct(core.Collector(), case['n'],
                  2 if case['n'] <= 6 else 1)
