"""C15 - EUI-64, host:port and URL helpers round-trip.

Independent bit arithmetic for get_ipv6_addr_by_EUI64 / get_mac_addr_by_ipv6,
inverse composition for parse_host_port(escape_ipv6(..)), and for urlsplit an
expected value computed from the generating grammar plus a differential against
urllib.parse.  params() is judged against the generating (name, value) pairs,
never by re-parsing.
"""

import ipaddress

from vcheck import argtypes
from vcheck import core
from vcheck.core import Task, Violation

ID = 'C15'
LEVEL = 'exploration'
BUDGET = {'quick': 40, 'thorough': 360}
# deterministic sub-checks repeated in a `python -O` child (core.optimized_child)
OPT_SUBS = ('eui64/errors', 'eui64/inverse-grid', 'hostport/grid', 'hostport/empty', 'urlsplit/examples')
# sub-checks repeated with str / int arguments as subclass instances
SUBCLASS_SUBS = ('eui64/errors', 'eui64/inverse-grid', 'hostport/grid', 'urlsplit/examples')
# documented call interface the generated calls rely on (vcheck/callstyle.py)
INTERFACE = [('oslo_utils.netutils', ['parse_host_port', 'escape_ipv6', 'get_ipv6_addr_by_EUI64', 'get_mac_addr_by_ipv6', 'urlsplit'])]
RULE = ('eui64: 48-bit MACs (0, all ones, every single bit, every single '
        'cleared bit, U/L patterns, random) x IPv6 prefixes (bare address '
        'with empty low half, /0../64 with and without host bits, compressed '
        'or exploded; /65../128 and bare addresses with a non-empty low half '
        'only for the exception contract) x spellings (: or -, upper/lower); '
        'expected = network address | modified EUI-64 by plain int arithmetic;'
        ' '
        'the result is fed back to get_mac_addr_by_ipv6; the inverse is also '
        'run on independently built addresses. Error classes: IPv4 address in '
        '1..4 part decimal/hex/octal spelling, malformed prefix, malformed '
        'MAC, non-str prefix => ValueError/TypeError. hostport: names, IPv4, '
        'IPv6 (compressed, exploded, upper, embedded IPv4) with and without '
        'scope x ports (all of 0..65535 for three hosts, boundary ports for '
        'the rest) x default ports. urlsplit: grammar URLs (scheme incl. none '
        'and upper-case, userinfo, name/IPv4/[IPv6]/[IPv6%25scope] host, '
        'port, path, query from known pairs with percent-encoding and '
        'repeated names, bare-token query, fragment) x allow_fragments x '
        'scheme default, plus URL-alphabet noise compared with urllib only. '
        'Non-trivial: MAC with U/L bit set or prefix with host bits; IPv6 '
        'host; URL with a repeated query name or a fragment under '
        'allow_fragments=False. Distinct by argument tuple.')
ASSUMPTIONS = [
    'the ipaddress module and urllib.parse.urlsplit of the running Python '
    '(3.12) are correct references',
    'netaddr.IPAddress / netaddr.EUI convert to int faithfully (only int() '
    'and str() of the returned objects are read)',
    'query strings use & as the only separator and names/values are '
    'non-empty (parse_qsl defaults)',
]

M48 = (1 << 48) - 1
M64 = (1 << 64) - 1
M128 = (1 << 128) - 1
UL = 1 << 41                      # universal/local bit of a 48-bit MAC

SCOPE_ALPHABET = ('abcdefghijklmnopqrstuvwxyzABCDEFGHIJKLMNOPQRSTUVWXYZ'
                  '0123456789._-')


# -- independent reference arithmetic ------------------------------------

def iid_of(mac):
    """Modified EUI-64 interface identifier of a 48-bit MAC (RFC 4291 A)."""
    return (((mac >> 24) << 40) | (0xFFFE << 24) |
            (mac & 0xFFFFFF)) ^ (1 << 57)


def netmask(plen):
    return (M128 >> (128 - plen)) << (128 - plen) if plen else 0


def render_mac(mac, sep=':', upper=False):
    s = sep.join('%02x' % ((mac >> (8 * i)) & 0xff) for i in range(5, -1, -1))
    return s.upper() if upper else s


def render_addr(addr, exploded=False, upper=False):
    a = ipaddress.IPv6Address(addr)
    s = a.exploded if exploded else a.compressed
    return s.upper() if upper else s


def render_prefix(addr, plen, exploded=False):
    s = render_addr(addr, exploded)
    return s if plen is None else '%s/%d' % (s, plen)


def _show(x):
    """repr() that survives objects whose own repr raises."""
    try:
        return repr(x)
    except Exception as e:
        return '<%s whose repr raises %r>' % (type(x).__name__, e)


def _call(fn, *a, **k):
    try:
        return ('ok', fn(*argtypes.maybe_all(a), **k))
    except Exception as e:            # noqa - the class is what is judged
        return ('err', e)


# -- eui64 ----------------------------------------------------------------

def check_eui64(col, case, sub='eui64'):
    """case: mac, sep, upper, addr, plen (None = bare address), exploded."""
    import netaddr
    from oslo_utils import netutils
    mac = case['mac']
    addr = case['addr']
    plen = case['plen']
    mac_s = render_mac(mac, case.get('sep', ':'), case.get('upper', False))
    pre_s = render_prefix(addr, plen, case.get('exploded', False))

    def bad(msg):
        raise Violation(sub, 'get_ipv6_addr_by_EUI64(%r, %r): %s'
                        % (pre_s, mac_s, msg), dict(case, kind='eui64'))

    if plen is None:
        specified = (addr & M64) == 0
        base = addr
        hostbits = False
        zone = 'bare' if specified else 'bare+lowbits'
    else:
        specified = plen <= 64
        base = addr & netmask(plen)
        hostbits = base != addr
        zone = ('len<=64' if specified else 'len>64') + \
            ('+hostbits' if hostbits else '')
    ul_set = bool(mac & UL)
    col.case(sub, (mac_s, pre_s), specified and (ul_set or hostbits),
             (zone, 'ul=%d' % ul_set),
             {'prefix': pre_s, 'mac': mac_s})
    got = _call(netutils.get_ipv6_addr_by_EUI64, pre_s, mac_s)
    if not specified:
        # prefix longer than 64 bits (or a bare address with a non-empty low
        # half): "combined" is not defined when network and identifier
        # overlap - only the exception contract is judged.
        col.unspec(sub, 'network part overlaps the interface identifier')
        if got[0] == 'err' and not isinstance(got[1], (ValueError, TypeError)):
            bad('raised %r, only ValueError/TypeError are documented'
                % (got[1],))
        return
    if got[0] == 'err':
        bad('raised %r' % (got[1],))
    res = got[1]
    want = base | iid_of(mac)
    try:
        gi = int(res)
        gs = int(ipaddress.IPv6Address(str(res)))
    except Exception as e:
        bad('result %s is not an IPv6 address (%r)' % (_show(res), e))
    if gi != want or gs != want:
        bad('returned %s, expected %s'
            % (_show(res), ipaddress.IPv6Address(want)))
    if getattr(res, 'version', 6) != 6:
        bad('result %s is not version 6' % (_show(res),))
    back = _call(netutils.get_mac_addr_by_ipv6, res)
    if back[0] == 'err':
        bad('get_mac_addr_by_ipv6(%s) raised %r' % (_show(res), back[1]))
    try:
        bi = int(back[1])
        same = back[1] == netaddr.EUI(mac_s)
    except Exception as e:
        bad('get_mac_addr_by_ipv6(%s) returned %s (%r)'
            % (_show(res), _show(back[1]), e))
    if bi != mac or not same:
        bad('get_mac_addr_by_ipv6(%s) = %s, expected %s'
            % (_show(res), _show(back[1]), render_mac(mac)))


def check_inverse(col, case, sub='eui64/inverse'):
    """case: mac, upper (the upper 64 bits of the address)."""
    import netaddr
    from oslo_utils import netutils
    mac = case['mac']
    addr = ((case['upper'] & M64) << 64) | iid_of(mac)
    ip = netaddr.IPAddress(addr, 6)
    col.case(sub, (mac, case['upper']), bool(mac & UL),
             'ul=%d' % bool(mac & UL), {'ipv6': str(ip)})

    def bad(msg):
        raise Violation(sub, 'get_mac_addr_by_ipv6(%s): %s' % (ip, msg),
                        dict(case, kind='inverse'))
    got = _call(netutils.get_mac_addr_by_ipv6, ip)
    if got[0] == 'err':
        bad('raised %r' % (got[1],))
    try:
        gi = int(got[1])
        gs = str(got[1])
    except Exception as e:
        bad('returned %s (%r)' % (_show(got[1]), e))
    if gi != mac:
        bad('returned %s, expected %s' % (_show(got[1]), render_mac(mac)))
    # documented default dialect: netaddr.mac_unix_expanded
    if gs != render_mac(mac):
        bad('default rendering %r, expected %r (mac_unix_expanded)'
            % (gs, render_mac(mac)))
    got2 = _call(netutils.get_mac_addr_by_ipv6, ip, netaddr.mac_cisco)
    try:
        ok2 = got2[0] == 'ok' and int(got2[1]) == mac
    except Exception:
        ok2 = False
    if not ok2:
        bad('with dialect=mac_cisco: %s' % (_show(got2[1]),))


NONSTR = {'int': 123, 'zero': 0, 'none': None, 'bytes': b'2001:db8::',
          'list': ['2001:db8::'], 'float': 1.5, 'tuple': ('2001:db8::', 64),
          'bool': True}


def check_eui64_error(col, case, sub='eui64/errors'):
    """case: why, prefix (str) or nonstr (key of NONSTR), mac (str or None)."""
    from oslo_utils import netutils
    if 'nonstr' in case:
        prefix = NONSTR[case['nonstr']]
    else:
        prefix = case['prefix']
    mac = case['mac']
    col.case(sub, (case.get('nonstr'), case.get('prefix'), mac), True,
             case['why'], {'prefix': repr(prefix), 'mac': mac})
    got = _call(netutils.get_ipv6_addr_by_EUI64, prefix, mac)
    if got[0] == 'ok':
        raise Violation(sub, 'get_ipv6_addr_by_EUI64(%r, %r) returned %r '
                        'for a %s; ValueError or TypeError expected'
                        % (prefix, mac, got[1], case['why']),
                        dict(case, kind='eui64_err'))
    if not isinstance(got[1], (ValueError, TypeError)):
        raise Violation(sub, 'get_ipv6_addr_by_EUI64(%r, %r) raised %r for a '
                        '%s; ValueError or TypeError expected'
                        % (prefix, mac, got[1], case['why']),
                        dict(case, kind='eui64_err'))


BOUNDARY_MACS = sorted(set(
    [0, M48, UL, M48 ^ UL, 0x00163e334455, 0x525400420219, 0x020000000000,
     0xfffffe000000, 0x000000fffffe, 0xfffe00000000, 0x00fffe000000,
     0x0000fffe0000, 0xff0000000000, 0x0000000000ff, 0x000001000000,
     0x000000ffffff, 0xffffff000000, 0x800000000000, 0x010000000000] +
    [1 << i for i in range(48)] + [M48 ^ (1 << i) for i in range(48)]))

BOUNDARY_UPPER = [0, M64, 0x20010db800000000, 0xfe80000000000000, 1,
                  1 << 63, 0x00000000ffff0000, 0x20010db8aaaa5555]
GRID_PLENS = [None, 0, 1, 7, 8, 10, 16, 31, 32, 33, 48, 56, 63, 64]
GRID_PLENS_LONG = [65, 72, 96, 104, 127, 128]


def eui64_grid(col, part, parts):
    sub = 'eui64/grid'
    n = 0
    for i, mac in enumerate(BOUNDARY_MACS):
        if i % parts != part:
            continue
        for up in BOUNDARY_UPPER:
            for plen in GRID_PLENS + GRID_PLENS_LONG:
                for hb in (0, 1, 2):
                    addr = up << 64
                    if plen is None:
                        if hb == 1:
                            continue
                        if hb == 2:
                            addr |= 0x1            # low half not empty
                    elif hb:
                        host = M128 >> plen if plen < 128 else 0
                        if not host:
                            continue
                        addr |= host if hb == 2 else (1 | (1 << (127 - plen)))
                    n += 1
                    case = {'mac': mac, 'addr': addr, 'plen': plen,
                            'sep': ':-'[n % 2], 'upper': bool((n >> 1) & 1),
                            'exploded': bool((n >> 2) & 1)}
                    check_eui64(col, case, sub)
    col.exhaustive[sub] = True


def eui64_inverse_grid(col):
    sub = 'eui64/inverse-grid'
    for mac in BOUNDARY_MACS:
        for up in BOUNDARY_UPPER:
            check_inverse(col, {'mac': mac, 'upper': up}, sub)
    col.exhaustive[sub] = True


def _ipv4_spellings():
    out = []
    for s in ['1.2.3.4', '0.0.0.0', '255.255.255.255', '10.0.8', '10.0.65535',
              '10.1', '10.16777215', '10', '0', '4294967295', '127.1',
              '0x7f.1', '0x7f.0x0.0x0.0x1', '0x7f000001', '0177.0.0.1',
              '010.1.1.1', '192.168.0.1', '1.1.1', '255.255.65535',
              '0x10', '00', '0.0', '017700000001', '0xA.0xb.0XC.13',
              # IPv4 networks: an IPv4 prefix in the proper sense
              '1.2.3.0/24', '10.0.0.0/8', '0.0.0.0/0', '1.2.3.4/32',
              '192.168.1.7/24', '10.0.0.0/255.0.0.0', '127.0.0.1/8']:
        out.append({'why': 'ipv4 prefix', 'prefix': s,
                    'mac': '00:16:3e:33:44:55'})
    return out


BAD_PREFIXES = [
    '', 'bb', 'g::', '2001:db8::g', '::/129', '::/-1', '::/1000',
    '2001:db8::/129', '1:2:3:4:5:6:7:8:9', '1:2:3:4:5:6:7:8:9/64',
    '1::2::3', '1::2::3/64', '12345::', '12345::/64', ':', ':::', '/',
    '/64', 'prefix', '2001:db8::/', '2001:db8:/64', '1:2:3:4:5:6:7/64',
    '2001:db8::/x', '2001:db8::/6x', '256.1.1.1', '1.2.3.256', '1.2.3.4.5',
    '-1.2.3.4', '1.2.3.4/33', '::1.2.3.256', '::1.2.3', ' ', '::%', '::/64/64',
]
BAD_MACS = [
    '', '00:16:3e:33:44:5Z', 'gg:16:3e:33:44:55', '00:16:3e:33:44',
    '00:16:3e:33:44:55:66', '00:16:3e:33:44:55:66:77:88',
    '00:16:3e:33:44:555', '000:16:3e:33:44:55', ' 00:16:3e:33:44:55',
    '00:16:3e:33:44:55 x', '00;16;3e;33;44;55', '00:16:3e:33:44:', ':',
    'not:a:mac:address', '00:16:3e:33::55', 'mac', '00:16:3e-33:44:5g',
    '-1', '1.5', '2001:db8::', '127.0.0.1x',
]


def eui64_errors(col):
    sub = 'eui64/errors'
    cases = _ipv4_spellings()
    for p in BAD_PREFIXES:
        cases.append({'why': 'malformed prefix', 'prefix': p,
                      'mac': '00:16:3e:33:44:55'})
    for m in BAD_MACS:
        for p in ('2001:db8::/64', '2001:db8::', 'fe80::/10'):
            cases.append({'why': 'malformed mac', 'prefix': p, 'mac': m})
    for k in sorted(NONSTR):
        cases.append({'why': 'non-str prefix', 'nonstr': k,
                      'mac': '00:16:3e:33:44:55'})
        cases.append({'why': 'non-str prefix', 'nonstr': k, 'mac': 'zz'})
    cases.append({'why': 'mac None', 'prefix': '2001:db8::/64', 'mac': None})
    for c in cases:
        check_eui64_error(col, c, sub)
    col.exhaustive[sub] = True


def st_mac():
    from hypothesis import strategies as st
    return st.one_of(st.sampled_from(BOUNDARY_MACS), st.integers(0, M48),
                     st.integers(0, M48).map(lambda m: m | UL))


def st_eui64():
    from hypothesis import strategies as st

    @st.composite
    def build(draw):
        mac = draw(st_mac())
        up = draw(st.one_of(st.sampled_from(BOUNDARY_UPPER),
                            st.integers(0, M64)))
        mode = draw(st.sampled_from(['bare', 'short', 'short', 'short',
                                     'short+host', 'short+host', 'long',
                                     'bare+low']))
        addr = up << 64
        if mode == 'bare':
            plen = None
        elif mode == 'bare+low':
            plen = None
            addr |= draw(st.integers(1, M64))
        elif mode == 'long':
            plen = draw(st.integers(65, 128))
            addr |= draw(st.integers(0, M64))
        else:
            plen = draw(st.one_of(st.sampled_from([0, 1, 32, 48, 63, 64]),
                                  st.integers(0, 64)))
            addr &= netmask(plen)
            if mode == 'short+host':
                addr |= draw(st.integers(1, M128)) & (M128 >> plen)
        return {'mac': mac, 'addr': addr, 'plen': plen,
                'sep': draw(st.sampled_from(':-')),
                'upper': draw(st.booleans()),
                'exploded': draw(st.booleans())}
    return build()


def st_eui64_err():
    """Generated members of the error classes (the fixed lists cover the
    documented examples; these vary the numbers)."""
    from hypothesis import strategies as st
    good_mac = st_mac().map(render_mac)
    dec = st.integers
    hexs = lambda lo, hi: st.integers(lo, hi).map(lambda v: '0x%x' % v)  # noqa
    num = lambda hi: st.one_of(dec(0, hi).map(str), hexs(0, hi))  # noqa
    ipv4 = st.one_of(
        st.tuples(num(255), num(255), num(255), num(255)),
        st.tuples(num(255), num(255), num(65535)),
        st.tuples(num(255), num((1 << 24) - 1)),
        st.tuples(num((1 << 32) - 1))).map('.'.join)
    c_ipv4 = st.builds(lambda p, m: {'why': 'ipv4 prefix', 'prefix': p,
                                     'mac': m}, ipv4, good_mac)
    hexgrp = st.integers(0, 0xffff).map(lambda v: '%x' % v)
    bad6 = st.one_of(
        st.lists(hexgrp, min_size=9, max_size=10).map(':'.join),
        st.lists(hexgrp, min_size=3, max_size=7).map(
            lambda g: ':'.join(g[:1] + ['', ''] + g[1:2] + ['', ''] + g[2:])
            .replace(':::', '::')),
        st.tuples(st.lists(hexgrp, min_size=8, max_size=8),
                  st.sampled_from('gxyz-')).map(
            lambda t: ':'.join(t[0][:3] + [t[1] + t[0][3]] + t[0][4:])),
        st.tuples(st.integers(0, M128), st.integers(129, 99999)).map(
            lambda t: '%s/%d' % (render_addr(t[0]), t[1])),
        st.tuples(st.integers(0, M128), st.integers(1, 999)).map(
            lambda t: '%s/-%d' % (render_addr(t[0]), t[1])),
        st.tuples(st.integers(0x10000, 0xfffff), hexgrp).map(
            lambda t: '%x::%s' % t),
    )
    c_bad6 = st.builds(lambda p, m: {'why': 'malformed prefix', 'prefix': p,
                                     'mac': m}, bad6, good_mac)
    good_prefix = st.tuples(st.integers(0, M64), st.integers(0, 64)).map(
        lambda t: render_prefix((t[0] << 64) & netmask(t[1]), t[1]))
    hx = st.integers(0, 255).map(lambda v: '%02x' % v)
    badmac = st.one_of(
        # group counts that no MAC spelling has (1 group is netaddr's bare
        # hex, 3 and 4 groups its Cisco-style EUI-48 / EUI-64, 8 an EUI-64:
        # other spellings of well-formed identifiers, not judged here)
        st.lists(hx, min_size=2, max_size=2).map(':'.join),
        st.lists(hx, min_size=5, max_size=5).map(':'.join),
        st.lists(hx, min_size=7, max_size=7).map(':'.join),
        st.lists(hx, min_size=9, max_size=12).map(':'.join),
        st.tuples(st.lists(hx, min_size=6, max_size=6), st.integers(0, 5),
                  st.sampled_from(['g', 'zz', '1g', 'x1', '123', '-1', ' 1',
                                   '0x1'])).map(
            lambda t: ':'.join(t[0][:t[1]] + [t[2]] + t[0][t[1] + 1:])),
        st.tuples(st.lists(hx, min_size=6, max_size=6),
                  # ('_' would make an all-digit string that int() reads:
                  # netaddr's integer spelling, not judged)
                  st.sampled_from([';', ' ', '/', '|', '::', ':-'])).map(
            lambda t: t[1].join(t[0])),
    )
    c_badmac = st.builds(lambda p, m: {'why': 'malformed mac', 'prefix': p,
                                       'mac': m}, good_prefix, badmac)
    return st.one_of(c_ipv4, c_bad6, c_badmac)


def eui64_random(col, seed, n):
    core.run_given(col, st_eui64(),
                   lambda c, case: check_eui64(c, case, 'eui64/random'),
                   seed, n)


def eui64_err_random(col, seed, n):
    core.run_given(col, st_eui64_err(),
                   lambda c, case: check_eui64_error(c, case,
                                                     'eui64/errors-gen'),
                   seed, n)


def eui64_inverse_random(col, seed, n):
    from hypothesis import strategies as st
    strat = st.builds(lambda m, u: {'mac': m, 'upper': u}, st_mac(),
                      st.one_of(st.sampled_from(BOUNDARY_UPPER),
                                st.integers(0, M64)))
    core.run_given(col, strat,
                   lambda c, case: check_inverse(c, case, 'eui64/inverse'),
                   seed, n)


# -- host:port -------------------------------------------------------------

def check_hostport(col, case, sub='hostport', record=True):
    """case: host (str), family ('name'|'v4'|'v6'|'v6s'), port, default."""
    from oslo_utils import netutils
    host = case['host']
    port = case['port']
    default = case['default']
    v6 = case['family'] in ('v6', 'v6s')
    if record:
        col.case(sub, (host, port, default), v6, case['family'],
                 {'host': host, 'port': port, 'default': default})

    def bad(msg):
        raise Violation(sub, msg, dict(case, kind='hostport'))

    esc = _call(netutils.escape_ipv6, host)
    want_esc = '[%s]' % host if v6 else host
    if esc[0] == 'err' or esc[1] != want_esc:
        bad('escape_ipv6(%r) -> %r, expected %r' % (host, esc[1], want_esc))
    esc = esc[1]

    def expect(arg, want, *a, **k):
        got = _call(netutils.parse_host_port, arg, *a, **k)
        if got[0] == 'err':
            bad('parse_host_port(%r, %r %r) raised %r' % (arg, a, k, got[1]))
        h, p = got[1] if isinstance(got[1], tuple) and len(got[1]) == 2 \
            else (got[1], 'not a pair')
        if (h, p) != want or (p is not None and type(p) is not int) or \
                (h is not None and not isinstance(h, str)):
            bad('parse_host_port(%r, %r %r) = %r, expected %r'
                % (arg, a, k, got[1], want))

    with_port = '%s:%d' % (esc, port)
    expect(with_port, (host, port), default)
    expect(with_port, (host, port), default_port=default)
    expect(esc, (host, default), default)
    if default is None:
        expect(esc, (host, None))
        expect(with_port, (host, port))
    if v6:
        # unescaped IPv6: the whole string is the host
        expect(host, (host, default), default_port=default)


HOST_NAMES = ['server01', 'localhost', 'a', 'A.Example.COM', 'x-y.z',
              'host.example.org.', 'xn--bcher-kva.example', '0', 'my_host',
              '1.2.3.4.example']
HOST_V4 = ['127.0.0.1', '0.0.0.0', '255.255.255.255', '10.0.0.8',
           '192.168.254.254']
HOST_V6 = ['::1', '::', '2001:db8:85a3::8a2e:370:7334', 'fe80::1',
           'ffff:ffff:ffff:ffff:ffff:ffff:ffff:ffff', '1:2:3:4:5:6:7:8',
           '::ffff:1.2.3.4', '64:ff9b::192.0.2.33', '2001:DB8::A', '1::',
           '0000:0000:0000:0000:0000:0000:0000:0001',
           'abcd:ef01:2345:6789:abcd:ef01:192.168.254.254', '1:2:3:4:5:6:7::']
SCOPES = ['eth0', '1', 'a', 'lo', 'br-ex.100', 'wlp2s0_1', 'abcdefghijklmno',
          'ENS3', '15chars-exactly',
          # numeric zone indices (Windows) and zones that read like
          # percent-encodings, ports or brackets to a careless parser
          '25', '250', '2', '12', '25eth0', '2F', '41', '0', '80', '3A80',
          '5D', '5B', 'eth0.25']
BOUNDARY_PORTS = [0, 1, 9, 10, 79, 80, 99, 100, 443, 999, 1000, 1023, 1024,
                  8080, 9999, 10000, 32767, 32768, 49151, 49152, 65534, 65535]
DEFAULTS = [None, 0, 1234, 65535]


def _hosts():
    out = [(h, 'name') for h in HOST_NAMES] + [(h, 'v4') for h in HOST_V4] + \
        [(h, 'v6') for h in HOST_V6]
    for i, h in enumerate(HOST_V6):
        out.append(('%s%%%s' % (h, SCOPES[i % len(SCOPES)]), 'v6s'))
    for s in SCOPES:
        out.append(('fe80::1%' + s, 'v6s'))
    return out


def hostport_grid(col):
    sub = 'hostport/grid'
    for host, fam in _hosts():
        for port in BOUNDARY_PORTS:
            for d in DEFAULTS:
                check_hostport(col, {'host': host, 'family': fam,
                                     'port': port, 'default': d}, sub)
    col.exhaustive[sub] = True


def hostport_empty(col):
    from oslo_utils import netutils
    sub = 'hostport/empty'
    for arg in ('', None):
        for d in DEFAULTS:
            col.case(sub, (arg, d), False, 'empty', {'address': arg,
                                                     'default': d})
            got = _call(netutils.parse_host_port, arg, d)
            if got[0] == 'err' or got[1] != (None, None):
                raise Violation(sub, 'parse_host_port(%r, %r) -> %r, '
                                'expected (None, None)' % (arg, d, got[1]),
                                {'kind': 'hostport_empty', 'address': arg,
                                 'default': d})
    col.exhaustive[sub] = True


ALLPORT_HOSTS = [('server01', 'name'), ('10.0.0.8', 'v4'),
                 ('2001:db8::8a2e:370:7334', 'v6'), ('fe80::1%eth0', 'v6s')]


def hostport_allports(col, lo, hi):
    """Every port of 0..65535 for one host of each family."""
    sub = 'hostport/allports'
    n = 0
    for port in range(lo, hi):
        for k, (host, fam) in enumerate(ALLPORT_HOSTS):
            d = DEFAULTS[(port + k) % len(DEFAULTS)]
            check_hostport(col, {'host': host, 'family': fam, 'port': port,
                                 'default': d}, sub, record=False)
            n += 1
    col.count(sub, n, 'ports %d..%d' % (lo, hi - 1))
    # distinct by construction; the two IPv6 hosts are the non-trivial ones
    col.distinct_extra += n // 2
    col.exhaustive[sub] = True


def st_ipv6_text():
    from hypothesis import strategies as st
    ints = st.one_of(
        st.integers(0, M128),
        st.integers(0, M64).map(lambda v: v << 64),
        st.integers(0, 0xffffffff).map(lambda v: (0xffff << 32) | v),
        st.lists(st.sampled_from([0, 0, 1, 0xffff, 0xdb8, 0x2001, 0xa]),
                 min_size=8, max_size=8).map(
            lambda g: sum(x << (16 * i) for i, x in enumerate(g))))

    def render(t):
        v, mode = t
        a = ipaddress.IPv6Address(v)
        if mode == 'c':
            return a.compressed
        if mode == 'C':
            return a.compressed.upper()
        if mode == 'x':
            return a.exploded
        if mode == 'g':              # full groups without zero padding
            return ':'.join('%x' % ((v >> (16 * i)) & 0xffff)
                            for i in range(7, -1, -1))
        # embedded IPv4 tail
        tail = str(ipaddress.IPv4Address(v & 0xffffffff))
        if v >> 32 == 0:
            return '::' + tail
        if v >> 32 == 0xffff:
            return '::ffff:' + tail
        g = ['%x' % ((v >> (16 * i)) & 0xffff) for i in range(7, 1, -1)]
        return ':'.join(g) + ':' + tail
    return st.tuples(ints, st.sampled_from('ccCxg4')).map(render)


def st_hostname():
    from hypothesis import strategies as st
    label = st.text('abcdefghijklmnopqrstuvwxyzABCXYZ0123456789-_',
                    min_size=1, max_size=12)
    return st.lists(label, min_size=1, max_size=4).map('.'.join)


def st_ipv4_text():
    from hypothesis import strategies as st
    return st.integers(0, 0xffffffff).map(
        lambda v: str(ipaddress.IPv4Address(v)))


def st_scope():
    from hypothesis import strategies as st
    return st.text(SCOPE_ALPHABET, min_size=1, max_size=15)


def st_hostport():
    from hypothesis import strategies as st
    host = st.one_of(
        st.tuples(st_hostname(), st.just('name')),
        st.tuples(st_ipv4_text(), st.just('v4')),
        st.tuples(st_ipv6_text(), st.just('v6')),
        st.tuples(st.tuples(st_ipv6_text(), st_scope()).map('%'.join),
                  st.just('v6s')))
    port = st.one_of(st.sampled_from(BOUNDARY_PORTS), st.integers(0, 65535))
    default = st.one_of(st.sampled_from(DEFAULTS), st.integers(0, 65535))
    return st.builds(lambda h, p, d: {'host': h[0], 'family': h[1],
                                      'port': p, 'default': d},
                     host, port, default)


def _valid_generated_host(case):
    """Guard against a generator slip: the family label must be what the
    standard library says about the string."""
    h = case['host']
    try:
        if case['family'] == 'v4':
            ipaddress.IPv4Address(h)
        elif case['family'] == 'v6':
            ipaddress.IPv6Address(h)
        elif case['family'] == 'v6s':
            a = ipaddress.IPv6Address(h)
            return bool(a.scope_id) and len(a.scope_id) <= 15
        else:
            return ':' not in h and not h.startswith('[')
    except ValueError:
        return False
    return True


def hostport_random(col, seed, n):
    def oracle(c, case):
        if not _valid_generated_host(case):
            raise core.HarnessError('generator produced %r' % (case,))
        check_hostport(c, case, 'hostport/random')
    core.run_given(col, st_hostport(), oracle, seed, n)


# -- urlsplit / params -------------------------------------------------------

UNRESERVED = ('abcdefghijklmnopqrstuvwxyzABCDEFGHIJKLMNOPQRSTUVWXYZ'
              '0123456789-._~')


def qs_encode(text, style):
    """Percent-encode for a query component.  style: (space_plus, lower_hex,
    encode_all)."""
    plus, lower, everything = style
    out = []
    for ch in text:
        if ch in UNRESERVED and not everything:
            out.append(ch)
        elif ch == ' ' and plus:
            out.append('+')
        else:
            for b in ch.encode('utf-8'):
                out.append(('%%%02x' if lower else '%%%02X') % b)
    return ''.join(out)


def build_url(case):
    """Return (url, expected five components, expected params or None)."""
    scheme = case['scheme']            # None or text as written
    netloc = case['netloc']            # None (no //) or text
    path = case['path']
    pairs = case.get('pairs')          # None / [] / [[n, v, style], ...]
    token = case.get('token')          # bare query text when pairs is None
    frag = case.get('fragment')        # None or text
    allow = case['allow_fragments']
    dflt = case.get('default_scheme', '')
    url = ''
    if scheme is not None:
        url += scheme + ':'
    if netloc is not None:
        url += '//' + netloc
    url += path
    has_q = pairs is not None or token is not None
    query = ''
    if pairs is not None:
        query = '&'.join('%s=%s' % (qs_encode(n, tuple(s)),
                                    qs_encode(v, tuple(s)))
                         for n, v, s in pairs)
    elif token is not None:
        query = token
    if has_q:
        url += '?' + query
    if frag is not None:
        url += '#' + frag
    e_scheme = scheme.lower() if scheme is not None else dflt
    e_path, e_query, e_frag = path, query, frag or ''
    if not allow:
        e_frag = ''
        if frag is not None:
            if has_q:
                e_query = query + '#' + frag
            elif '?' in frag:
                # no fragment splitting: the first ? of the tail starts the
                # query
                head, e_query = frag.split('?', 1)
                e_path = path + '#' + head
            else:
                e_path = path + '#' + frag
    exp = (e_scheme, netloc or '', e_path, e_query, e_frag)
    params = None
    if pairs is not None:
        vals = [[n, v] for n, v, _s in pairs]
        if not allow and frag is not None and vals:
            vals[-1][1] = vals[-1][1] + '#' + frag
        last = {}
        every = {}
        for n, v in vals:
            last[n] = v
            if n in every:
                if isinstance(every[n], list):
                    every[n] = every[n] + [v]
                else:
                    every[n] = [every[n], v]
            else:
                every[n] = v
        params = (last, every)
    return url, exp, params


def _attrs(r):
    out = []
    for name in ('hostname', 'port', 'username', 'password'):
        try:
            out.append(('ok', getattr(r, name)))
        except ValueError:
            out.append(('err', 'ValueError'))
    try:
        out.append(('ok', r.geturl()))
    except ValueError:
        out.append(('err', 'ValueError'))
    return out


def _split_both(url, dflt, allow, style):
    """Call netutils.urlsplit and urllib's with the same argument style."""
    from urllib import parse
    from oslo_utils import netutils
    if style == 0:
        a, k = (url, dflt, allow), {}
    elif style == 1:
        a, k = (url,), {'scheme': dflt, 'allow_fragments': allow}
    else:
        a, k = (url,), {}
        if dflt != '':
            k['scheme'] = dflt
        if allow is not True:
            k['allow_fragments'] = allow
    return _call(netutils.urlsplit, *a, **k), _call(parse.urlsplit, *a, **k)


def check_url(col, case, sub='urlsplit'):
    url, exp, params = build_url(case)
    allow = case['allow_fragments']
    dflt = case.get('default_scheme', '')
    repeated = False
    if case.get('pairs'):
        names = [p[0] for p in case['pairs']]
        repeated = len(set(names)) < len(names)
    frag_kept = (not allow) and case.get('fragment') is not None
    cls = ['scheme=%s' % ('none' if case['scheme'] is None else
                          case['scheme'].lower() if case['scheme'].lower() in
                          ('http', 'https', 'ftp') else 'custom'),
           'allow_fragments=%s' % allow]
    if repeated:
        cls.append('repeated-name')
    if frag_kept:
        cls.append('fragment-kept-in-query/path')
    if case['netloc'] and '[' in case['netloc']:
        cls.append('ipv6-literal')
    if case['netloc'] and '@' in case['netloc']:
        cls.append('userinfo')
    col.case(sub, (url, dflt, allow), repeated or frag_kept, cls,
             {'url': url, 'scheme': dflt, 'allow_fragments': allow})

    def bad(msg):
        raise Violation(sub, 'urlsplit(%r, %r, %r): %s'
                        % (url, dflt, allow, msg), dict(case, kind='url'))

    got, ref = _split_both(url, dflt, allow, case.get('argstyle', 0))
    if ref[0] == 'err':
        raise core.HarnessError('grammar URL rejected by urllib: %r %r'
                                % (url, ref[1]))
    if got[0] == 'err':
        bad('raised %r' % (got[1],))
    r = got[1]
    comps = tuple(r)
    if comps != tuple(ref[1]):
        bad('components %r differ from urllib.parse.urlsplit %r'
            % (comps, tuple(ref[1])))
    if comps != exp:
        # urllib and the grammar disagree: the grammar model is wrong
        raise core.HarnessError('grammar expectation %r != urllib %r for %r'
                                % (exp, comps, url))
    named = (r.scheme, r.netloc, r.path, r.query, r.fragment)
    if named != exp:
        bad('named fields %r, expected %r' % (named, exp))
    if _attrs(r) != _attrs(ref[1]):
        bad('hostname/port/username/password/geturl %r differ from '
            'urllib %r' % (_attrs(r), _attrs(ref[1])))
    p1 = _call(r.params)
    p2 = _call(r.params, collapse=False)
    p3 = _call(r.params, True)
    for p in (p1, p2, p3):
        if p[0] == 'err' or not isinstance(p[1], dict):
            bad('params() -> %r' % (p[1],))
    if params is not None:
        last, every = params
        if p1[1] != last or p3[1] != last:
            bad('params() = %r, expected last values %r' % (p1[1], last))
        if p2[1] != every:
            bad('params(collapse=False) = %r, expected %r' % (p2[1], every))
        # the caller owns what params() returned: scribble over it (dict and
        # value lists), then ask again - on this result object and on a
        # fresh urlsplit of the same URL
        for d in (p1[1], p2[1], p3[1]):
            for v in d.values():
                if isinstance(v, list):
                    v.append('scribble')
                    v.reverse()
            d['scribble'] = ['x']
        again = _split_both(url, dflt, allow, case.get('argstyle', 0))[0]
        for rr in (r, again[1] if again[0] != 'err' else r):
            q1 = _call(rr.params)
            q2 = _call(rr.params, collapse=False)
            if q1[0] == 'err' or q1[1] != last:
                bad('params() after the caller modified an earlier result = '
                    '%r, expected %r' % (q1[1], last))
            if q2[0] == 'err' or q2[1] != every:
                bad('params(collapse=False) after the caller modified an '
                    'earlier result = %r, expected %r' % (q2[1], every))
    elif exp[3] == '':
        if p1[1] != {} or p2[1] != {}:
            bad('params() = %r / %r without a query' % (p1[1], p2[1]))
    else:
        # a bare token (or the tail of an unsplit fragment) has no known
        # name=value shape: only "returns a dict"
        col.unspec(sub, 'query without name=value pairs')


def check_url_noise(col, case, sub='urlsplit/noise'):
    """Differential only: any string over a URL-ish alphabet."""
    url = case['url']
    allow = case['allow_fragments']
    dflt = case.get('default_scheme', '')
    col.case(sub, (url, dflt, allow), ('#' in url and not allow),
             'allow_fragments=%s' % allow, {'url': url})
    got, ref = _split_both(url, dflt, allow, case.get('argstyle', 0))

    def bad(msg):
        raise Violation(sub, 'urlsplit(%r, %r, %r): %s'
                        % (url, dflt, allow, msg),
                        dict(case, kind='url_noise'))
    if ref[0] == 'err':
        if got[0] != 'err' or type(got[1]) is not type(ref[1]):
            bad('urllib raises %r, netutils %r' % (ref[1], got[1]))
        return
    if got[0] == 'err':
        bad('raised %r, urllib returns %r' % (got[1], tuple(ref[1])))
    if tuple(got[1]) != tuple(ref[1]):
        bad('components %r differ from urllib %r'
            % (tuple(got[1]), tuple(ref[1])))
    if _attrs(got[1]) != _attrs(ref[1]):
        bad('attributes %r differ from urllib %r'
            % (_attrs(got[1]), _attrs(ref[1])))
    p = _call(got[1].params)
    p2 = _call(got[1].params, collapse=False)
    if p[0] == 'err' or p2[0] == 'err' or not isinstance(p[1], dict) or \
            not isinstance(p2[1], dict):
        bad('params() -> %r / %r' % (p[1], p2[1]))
    # collapse=False must carry the same names, and the collapsed value is
    # the last of the listed ones (statement: last or all values)
    if set(p[1]) != set(p2[1]):
        bad('params names differ: %r vs %r' % (p[1], p2[1]))
    for k, v in p2[1].items():
        lastv = v[-1] if isinstance(v, list) else v
        if p[1][k] != lastv:
            bad('params()[%r]=%r is not the last of %r' % (k, p[1][k], v))


def st_url():
    from hypothesis import strategies as st
    seg_chars = UNRESERVED + ';=,'
    token = st.text(UNRESERVED, min_size=1, max_size=8)
    scheme = st.one_of(
        st.sampled_from(['http', 'https', 'ftp', 'HTTP', 'Https', 'rpc',
                         'custom', 'x-y+z.1', 'kombu+qpid', 'a']),
        st.none())
    userinfo = st.one_of(st.just(''), token.map(lambda u: u + '@'),
                         st.tuples(token, token).map(lambda t: '%s:%s@' % t),
                         st.just('user:p%40ss@'))
    v6 = st_ipv6_text()
    host = st.one_of(
        st_hostname(), st_ipv4_text(),
        v6.map(lambda h: '[%s]' % h),
        st.tuples(v6, st.text(UNRESERVED, min_size=1, max_size=8)).map(
            lambda t: '[%s%%25%s]' % t))
    port = st.one_of(st.just(''), st.just(''),
                     st.sampled_from(BOUNDARY_PORTS).map(lambda p: ':%d' % p),
                     st.integers(0, 65535).map(lambda p: ':%d' % p),
                     st.just(':'), st.just(':65536'), st.just(':99999'))
    netloc = st.one_of(
        st.none(), st.just(''),
        st.tuples(userinfo, host, port).map(''.join),
        st.tuples(userinfo, host, port).map(''.join))
    segs = st.lists(st.one_of(st.text(seg_chars, min_size=0, max_size=8),
                              st.just('%2F'), st.just('v2.0'), st.just('a:b'),
                              st.just('@')),
                    min_size=0, max_size=4)
    qtext = st.text('abcXYZ019 &=+%#?/;:@[]~é日\u0000-_.',
                    min_size=1, max_size=6)
    qname = st.one_of(st.sampled_from(['a', 'b', 'name', 'a b', 'k&k']),
                      qtext)
    style = st.tuples(st.booleans(), st.booleans(), st.booleans()).map(list)
    pair = st.tuples(qname, qtext, style).map(list)
    pairs = st.one_of(st.none(), st.none(),
                      st.lists(pair, min_size=0, max_size=6))
    frag = st.one_of(st.none(), st.just(''),
                     st.text(UNRESERVED + '/?:@', min_size=1, max_size=8))

    @st.composite
    def build(draw):
        sc = draw(scheme)
        nl = draw(netloc)
        sg = draw(segs)
        if nl is not None:
            path = ''.join('/' + s for s in sg)
        else:
            # no authority: the path must not look like one, and without a
            # scheme its first segment must not look like a scheme
            path = '/'.join(sg)
            if draw(st.booleans()):
                path = '/' + path
            if path.startswith('//'):
                path = '/' + path.lstrip('/')
            if sc is None and ':' in path.split('/')[0]:
                path = './' + path
        pr = draw(pairs)
        tk = None
        if pr is None and draw(st.integers(0, 3)) == 0:
            tk = draw(st.one_of(st.just(''), token,
                                st.just('someparam'), st.just('a&b')))
        return {'scheme': sc, 'netloc': nl, 'path': path, 'pairs': pr,
                'token': tk, 'fragment': draw(frag),
                'allow_fragments': draw(st.booleans()),
                'default_scheme': draw(st.sampled_from(['', '', 'dflt',
                                                        'http'])),
                'argstyle': draw(st.integers(0, 2))}
    return build()


def st_url_noise():
    from hypothesis import strategies as st
    pieces = st.sampled_from(
        ['http', 'rpc', ':', '//', '/', '?', '#', '&', '=', ';', '@', '[',
         ']', '::1', 'host', '1.2.3.4', ':80', '%', '%41', '+', ' ', 'a', 'b',
         'x=1', '.', '..', '\\', '\t', '\n', 'é', 'a=1&a=2', '?#', '#?'])
    return st.builds(
        lambda ps, allow, dflt, style: {
            'url': ''.join(ps), 'allow_fragments': allow,
            'default_scheme': dflt, 'argstyle': style},
        st.lists(pieces, min_size=0, max_size=10), st.booleans(),
        st.sampled_from(['', 'dflt']), st.integers(0, 2))


URL_EXAMPLES = [
    # the repository's own examples, both fragment modes
    {'scheme': 'rpc', 'netloc': 'myhost', 'path': '', 'token': 'someparam',
     'fragment': 'somefragment'},
    {'scheme': 'rpc', 'netloc': 'myhost', 'path': '/mypath',
     'token': 'someparam', 'fragment': 'somefragment'},
    {'scheme': 'rpc', 'netloc': 'user:pass@myhost', 'path': '/mypath',
     'token': 'someparam', 'fragment': 'somefragment'},
    {'scheme': 'http', 'netloc': '[::1]:443', 'path': '/v2.0/'},
    {'scheme': 'http', 'netloc': 'user:pass@[::1]', 'path': '/v2.0/'},
    {'scheme': 'https', 'netloc': '[2001:db8:85a3::8a2e:370:7334]:1234',
     'path': '/v2.0/xy', 'token': 'ab', 'fragment': '12'},
    {'scheme': 'http', 'netloc': 'localhost', 'path': '/',
     'pairs': [['a', 'b', [0, 0, 0]], ['c', 'd', [0, 0, 0]]]},
    {'scheme': 'http', 'netloc': 'localhost', 'path': '/',
     'pairs': [['a', 'b', [0, 0, 0]], ['a', 'c', [0, 0, 0]],
               ['a', 'd', [0, 0, 0]]]},
    {'scheme': 'http', 'netloc': 'localhost', 'path': '/',
     'pairs': [['a', 'b', [0, 0, 0]], ['a', 'c', [0, 0, 0]],
               ['a', 'd', [0, 0, 0]]], 'fragment': 'f'},
    {'scheme': 'http', 'netloc': 'localhost', 'path': ''},
    {'scheme': 'http', 'netloc': 'localhost', 'path': '', 'token': ''},
    {'scheme': 'http', 'netloc': '', 'path': ''},
    {'scheme': None, 'netloc': 'h', 'path': '/p', 'token': 'q',
     'fragment': 'f'},
    {'scheme': None, 'netloc': None, 'path': 'h/p', 'token': 'q',
     'fragment': 'f'},
    {'scheme': 'http', 'netloc': 'host', 'path': '', 'fragment': 'frag'},
    # case is preserved outside the scheme; ? inside query and fragment
    {'scheme': 'HTTPS', 'netloc': 'User:Pass@Host.Example.COM:8080',
     'path': '/A/b', 'token': 'x?y=1&Z', 'fragment': 'F?g'},
    {'scheme': 'rpc', 'netloc': '[FE80::A%25Eth0]:65535', 'path': '/p',
     'fragment': 'f?q=1'},
    {'scheme': 'http', 'netloc': 'h', 'path': '/p',
     'pairs': [['a b', 'x?y', [1, 0, 0]], ['A B', '1', [0, 1, 0]],
               ['a b', '\xe9=&', [0, 1, 1]]], 'fragment': 'f'},
]


def url_examples(col):
    sub = 'urlsplit/examples'
    for ex in URL_EXAMPLES:
        for allow in (True, False):
            for dflt in ('', 'dflt'):
                for style in (0, 1, 2):
                    case = dict({'pairs': None, 'token': None,
                                 'fragment': None}, **ex)
                    case.update(allow_fragments=allow, default_scheme=dflt,
                                argstyle=style)
                    check_url(col, case, sub)
    col.exhaustive[sub] = True


def url_random(col, seed, n):
    core.run_given(col, st_url(),
                   lambda c, case: check_url(c, case, 'urlsplit/grammar'),
                   seed, n)


def url_noise(col, seed, n):
    core.run_given(col, st_url_noise(),
                   lambda c, case: check_url_noise(c, case, 'urlsplit/noise'),
                   seed, n)


# -- tasks / replay -----------------------------------------------------------

def tasks(tier, seed):
    quick = tier == 'quick'
    out = [Task('eui64/errors', eui64_errors),
           Task('eui64/inverse-grid', eui64_inverse_grid),
           Task('hostport/grid', hostport_grid),
           Task('hostport/empty', hostport_empty),
           Task('urlsplit/examples', url_examples),
           Task('preempt', preempt)]
    parts = 8
    for p in range(parts):
        out.append(Task('eui64/grid', eui64_grid, part=p, parts=parts))
    step = 65536 // 4
    for lo in range(0, 65536, step):
        out.append(Task('hostport/allports', hostport_allports, lo=lo,
                        hi=lo + step))
    shards = 3 if quick else 6
    n = 1200 if quick else 8000
    for i in range(shards):
        out.append(Task('eui64/random', eui64_random, n=n,
                        seed=core.derive_seed(seed, ID, 'eui64', i)))
        out.append(Task('hostport/random', hostport_random, n=n,
                        seed=core.derive_seed(seed, ID, 'hostport', i)))
        out.append(Task('urlsplit/grammar', url_random, n=n,
                        seed=core.derive_seed(seed, ID, 'url', i)))
    for i in range(2 if quick else 4):
        out.append(Task('urlsplit/noise', url_noise, n=n,
                        seed=core.derive_seed(seed, ID, 'noise', i)))
        out.append(Task('eui64/errors-gen', eui64_err_random, n=n,
                        seed=core.derive_seed(seed, ID, 'euierr', i)))
        out.append(Task('eui64/inverse', eui64_inverse_random, n=n,
                        seed=core.derive_seed(seed, ID, 'inv', i)))
    return out


def preempt(col):
    """Schedules (core.preempt_calls): the helpers against each other under
    every single preemption inside netutils."""
    import netaddr
    from oslo_utils import netutils as n
    sub = 'preempt'

    def V(x):
        return ('value', x)

    def split():
        u = n.urlsplit('http://u@h:8/p?a=1&a=2#f')
        return (tuple(u), u.params(), u.params(collapse=False))

    calls = [
        ('parse_host_port([::1]:80)',
         lambda: n.parse_host_port('[::1]:80'), V(('::1', 80))),
        ('parse_host_port(host, 5)',
         lambda: n.parse_host_port('host', 5), V(('host', 5))),
        ('get_ipv6_addr_by_EUI64(2001:db8::/64, 00:16:3e:33:44:55)',
         lambda: str(n.get_ipv6_addr_by_EUI64('2001:db8::/64',
                                              '00:16:3e:33:44:55')),
         V('2001:db8::216:3eff:fe33:4455')),
        ('get_ipv6_addr_by_EUI64(1.2.3.0/24, mac)',
         lambda: n.get_ipv6_addr_by_EUI64('1.2.3.0/24', '00:16:3e:33:44:55'),
         ('raise', 'ValueError')),
        ('parse_host_port(1.2.3.4:9)',
         lambda: n.parse_host_port('1.2.3.4:9'), V(('1.2.3.4', 9))),
        ('get_mac_addr_by_ipv6',
         lambda: str(n.get_mac_addr_by_ipv6(netaddr.IPAddress(
             '2001:db8::216:3eff:fe33:4455'))), V('00:16:3e:33:44:55')),
        ('escape_ipv6(::1)', lambda: n.escape_ipv6('::1'), V('[::1]')),
        ('urlsplit', split,
         V((('http', 'u@h:8', '/p', 'a=1&a=2', 'f'), {'a': '2'},
            {'a': ['1', '2']}))),
        ('get_ipv6_addr_by_EUI64(fd00::/8, ff:ff:ff:ff:ff:ff)',
         lambda: str(n.get_ipv6_addr_by_EUI64('fd00::/8',
                                              'ff:ff:ff:ff:ff:ff')),
         V('fd00::fdff:ffff:feff:ffff')),
    ]
    core.preempt_calls(col, sub, ['oslo_utils.netutils'], calls)
    col.exhaustive.setdefault(sub, False)


def replay(rec):
    case = rec['case']
    sub = rec.get('sub', 'replay')
    col = core.Collector()
    kind = case.get('kind')
    if case.get('preempt_calls'):
        return preempt(col)
    if kind == 'eui64':
        check_eui64(col, case, sub)
    elif kind == 'inverse':
        check_inverse(col, case, sub)
    elif kind == 'eui64_err':
        check_eui64_error(col, case, sub)
    elif kind == 'hostport':
        check_hostport(col, case, sub)
    elif kind == 'hostport_empty':
        hostport_empty(col)
    elif kind == 'url':
        check_url(col, case, sub)
    elif kind == 'url_noise':
        check_url_noise(col, case, sub)
    else:
        raise core.HarnessError('unknown case kind %r' % (kind,))
