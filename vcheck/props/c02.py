"""C02 - safety check is fail-closed.

Construction with known ground truth: vcheck.imggen builds every image from
its layout and records which unsafe traits (as listed in the statement) it put
in.  must-reject: an unsafe trait, a stream cut before the structure the
inspector needs, a signature that is absent, or a check that raised.
must-accept: a clean complete image of any format but QED.  Everything else
is counted as unspecified.  The CLI is compared with the library on the same
files and with the construction truth.
"""

import contextlib
import io
import itertools
import os
import shutil
import struct
import subprocess
import sys
import tempfile

from vcheck import chunking, core, imgdrive, sigmodel
from vcheck.core import Task, Violation

ID = 'C02'
LEVEL = 'exploration'
BUDGET = {'quick': 75, 'thorough': 700}
# deterministic sub-checks repeated in a `python -O` child (core.optimized_child)
OPT_SUBS = ('mbr', 'qcow2grid', 'sweeps', 'checkfault')
# documented call interface the generated calls rely on (vcheck/callstyle.py)
INTERFACE = [('oslo_utils.imageutils.format_inspector', None)]
RULE = ('exhaustive finite families: all 15^4 MBR tables over per-entry '
        'classes {empty, data, protective ok / bad CHS / bad LBA} x boot flag '
        '{0x00, 0x80, other}; qcow2 version x each single feature bit x '
        'backing-file offset class; sweeps of every VMDK createType spelling, '
        'unsafe descriptor line, footer perturbation, LUKS version. '
        'Hypothesis: images with generated safe/unsafe trait mixes and '
        'arbitrary irrelevant fields x schedules, truncations at structure '
        'boundaries, every inspector on content whose signature is absent, '
        'a check method overridden to raise. CLI in-process on the same '
        'images written to disk plus a real-subprocess sample. Non-trivial: '
        'image carries >= 1 unsafe trait, is truncated/mismatching, or is a '
        'clean image with non-default free fields; distinct by (format, '
        'params, schedule).')
ASSUMPTIONS = [
    'which traits are unsafe is what the statement enumerates (pinned in '
    'vcheck.imggen: qcow2 feature bits other than 0,1,3 and bit 2 = external '
    'data file, versions other than 2/3, ...); other threats are out of scope',
    'a feature word on a qcow2 v2 header, duplicated createType lines and '
    'similar spellings the statement does not mention are unspecified',
    'in-process cli.main() with argv patched stands in for the subprocess; a '
    'sample of real subprocess runs validates the shortcut',
]

TRAIT_CHECK = {
    'backing_file': 'backing_file', 'data_file': 'data_file',
    'unknown_features': 'unknown_features', 'version': 'unknown_features',
    'qed': 'banned', 'luks_version': 'version', 'boot_flag': 'mbr',
    'protective_misplaced': 'mbr', 'protective_accompanied': 'mbr',
    'no_partition': 'mbr', 'create_type': 'descriptor',
    'unknown_line': 'descriptor', 'extent_path': 'descriptor',
    'no_extent': 'descriptor', 'footer': 'footer',
}


def outcome_of(fmt, data, sched):
    imgdrive.tracing_for((fmt, core.h64(data), repr(sched)))
    v, insp, _f = imgdrive.drive(fmt, data, sched)
    return v[4], v


def judge(col, sub, img, outcome, case, data=None, cut=None):
    """Apply the three-valued oracle to one (image, safety outcome)."""
    accepted = outcome == 'pass'
    if outcome.startswith('raises:'):
        raise Violation(sub, '%s: safety_check raised %s (neither '
                        'SafetyCheckFailed nor ImageFormatError)'
                        % (img.fmt, outcome[7:]), case)
    truncated = cut is not None and cut < _need(img)
    if img.unsafe or truncated:
        if accepted:
            raise Violation(
                sub, '%s image accepted although it %s'
                % (img.fmt, ('is cut at %d bytes, before the structure the '
                             'inspector needs (%d)' % (cut, _need(img)))
                   if truncated else
                   ('carries unsafe trait(s) %s' % sorted(img.unsafe))),
                case)
        if outcome.startswith('failed:') and not truncated:
            failing = set(outcome[7:].split(','))
            want = {TRAIT_CHECK[t] for t in img.unsafe if t in TRAIT_CHECK}
            if want and not (want & failing):
                # rejected, but by a different check than the trait's own
                col.unspec(sub, 'rejected by another check')
        return 'reject'
    if img.clean and cut is None:
        if not accepted:
            raise Violation(sub, 'clean %s image rejected: %s'
                            % (img.fmt, outcome), case)
        return 'accept'
    col.unspec(sub, img.note or 'not clean, no listed unsafe trait')
    return 'unspecified'


def _need(img):
    """Shortest prefix on which the inspector could have everything."""
    if img.fmt == 'vhdx':
        return img.size_field_end
    if img.fmt == 'vmdk':
        return len(img.data) if img.params.get('footer') else img.struct_end
    if img.fmt in ('raw',):
        return 0
    return img.struct_end or 0


def _key(fmt, params, extra=None):
    return (fmt, sorted(params.items(), key=repr), extra)


# ------------------------------------------------------------- exhaustive

def mbr_family(col, first, fill):
    from vcheck import imggen
    sub = 'mbr'
    entry_space = [(c, b) for c in imggen.PTE_CLASSES
                   for b in imggen.BOOT_CLASSES]
    n = 0
    accepted = 0
    for rest in itertools.product(entry_space, repeat=3):
        entries = (entry_space[first],) + rest
        img = imggen.build_gpt(entries=entries, length=512, fill=fill)
        out, v = outcome_of('gpt', img.data, ['sizes', [512]])
        case = {'fmt': 'gpt', 'params': img.params,
                'schedule': ['sizes', [512]]}
        r = judge(col, sub, img, out, case)
        if img.unsafe and out.startswith('failed:') and 'mbr' not in out:
            raise Violation(sub, 'unsafe MBR rejected by %s, not by the mbr '
                            'check' % out, case)
        n += 1
        accepted += r == 'accept'
    col.count(sub, n - 1, 'first=%s/%#x' % entry_space[first])
    col.distinct_extra += n - 1
    col.case(sub, ('mbr', first, fill), True, 'sample',
             {'entries': [list(e) for e in entries], 'accepted_in_shard':
              accepted, 'tables': n})
    col.exhaustive.setdefault(sub, True)


def qcow2_grid(col, fill):
    from vcheck import imggen
    sub = 'qcow2grid'
    versions = (0, 1, 2, 3, 4, 5, 2 ** 31, 2 ** 32 - 1)
    feats = [0] + [1 << b for b in range(64)] + [0b1011, 0b1111, 0x13]
    bfs = (0, 1, 2 ** 32, 2 ** 63, 2 ** 64 - 1)
    for ver in versions:
        for f in feats:
            for bf in bfs:
                for tail_zero in ((True, False) if ver == 2 else (False,)):
                    p = dict(version=ver, features=f, bf_offset=bf,
                             size=12345 + ver, length=512, fill=fill,
                             v2_tail_zero=tail_zero)
                    img = imggen.build_qcow2(**p)
                    for sched in (['sizes', [512]], ['fixed', 100]):
                        out, v = outcome_of('qcow2', img.data, sched)
                        case = {'fmt': 'qcow2', 'params': img.params,
                                'schedule': sched}
                        judge(col, sub, img, out, case)
                        col.case(sub, _key('qcow2', img.params, sched),
                                 bool(img.unsafe) or f != 0,
                                 'v%s' % (ver if ver < 6 else 'big'),
                                 {'params': p, 'outcome': out})
    col.exhaustive.setdefault(sub, True)


def sweeps(col):
    from vcheck import imggen, imgstrat
    sub = 'sweeps'

    def run(fmt, params, cls):
        img = imggen.build(fmt, params)
        scheds = (['fixed', 512], ['sizes', [len(img.data)]], ['fixed', 7])
        if len(img.data) > 200000:
            scheds = (['fixed', 65536], ['sizes', [len(img.data)]])
        for sched in scheds:
            out, v = outcome_of(fmt, img.data, sched)
            case = {'fmt': fmt, 'params': img.params, 'schedule': sched}
            judge(col, sub, img, out, case)
            col.case(sub, _key(fmt, img.params, sched), bool(img.unsafe), cls,
                     {'fmt': fmt, 'params': params, 'outcome': out})

    base = list(imggen.VMDK_DEFAULT_LINES)
    for footer in (False, True):
        for t in imgstrat.VMDK_TYPES_OK + imgstrat.VMDK_TYPES_BAD:
            lines = [('createType="%s"' % t) if ln.startswith('createType')
                     else ln for ln in base]
            run('vmdk', dict(lines=lines, footer=footer), 'vmdk-type')
        for sp in ('createType=monolithicSparse',
                   'createType = "streamOptimized"',
                   "createType='monolithicSparse'", 'createtype: "vmfs"',
                   '#createType="monolithicSparse"'):
            lines = [sp if ln.startswith('createType') else ln
                     for ln in base]
            run('vmdk', dict(lines=lines, footer=footer), 'vmdk-type')
        for _t, bad in imgstrat.VMDK_UNSAFE_LINES:
            for pos in (1, 5, len(base)):
                lines = base[:pos] + [bad] + base[pos:]
                run('vmdk', dict(lines=lines, footer=footer), 'vmdk-line')
        # the same unsafe lines deep inside a descriptor of several
        # sectors (comment lines in front push them to byte ~600, ~1100,
        # ~3600 and ~9000 of the descriptor area), and required lines there
        filler = ['# filler line %03d ..............................' % i
                  for i in range(200)]
        for k in (12, 22, 72, 180):
            for _t, bad in imgstrat.VMDK_UNSAFE_LINES[::3]:
                lines = base[:1] + filler[:k] + [bad] + base[1:]
                run('vmdk', dict(lines=lines, footer=footer), 'vmdk-deep')
                lines = base + filler[:k] + [bad]
                run('vmdk', dict(lines=lines, footer=footer), 'vmdk-deep')
            # well-formed, with createType / the extent line far down
            lines = base[:1] + filler[:k] + base[1:]
            run('vmdk', dict(lines=lines, footer=footer), 'vmdk-deep')
            lines = [ln for ln in base if not ln.startswith('createType')]
            lines = lines[:1] + filler[:k] + lines[1:]
            run('vmdk', dict(lines=lines, footer=footer), 'vmdk-deep')
        # repeated createType lines: the first one is what qemu reads
        good = [ln for ln in base if ln.startswith('createType')][0]
        for bad_t in ('monolithicFlat', 'vmfs', 'custom'):
            bad = 'createType="%s"' % bad_t
            rest = [ln for ln in base if not ln.startswith('createType')]
            for first, second, where in ((bad, good, 'end'),
                                         (bad, good, 'next'),
                                         (good, bad, 'end')):
                if where == 'next':
                    lines = rest[:1] + [first, second] + rest[1:]
                else:
                    lines = rest[:1] + [first] + rest[1:] + [second]
                run('vmdk', dict(lines=lines, footer=footer), 'vmdk-type')
        lines = [ln for ln in base if not ln.startswith('RW ')]
        run('vmdk', dict(lines=lines, footer=footer), 'vmdk-noextent')
        for ver in (0, 1, 2, 3, 4, 2 ** 32 - 1):
            run('vmdk', dict(version=ver, footer=footer), 'vmdk-version')
        for off in (0, 1, 2, 3, 2 ** 63):
            run('vmdk', dict(desc_off=off, footer=footer), 'vmdk-descoff')
    for fo in imgstrat.FOOTER_PERTURB:
        fo = {k: (v.decode('latin-1') if isinstance(v, bytes) else v)
              for k, v in fo.items()}
        run('vmdk', dict(footer=True, footer_over=fo), 'vmdk-footer')
    # descriptor text with a NUL in the middle: what follows the first NUL
    # is padding, so lines placed there do not count
    good = ('\n'.join(base) + '\n').encode()
    ct = b'createType="monolithicSparse"\n'
    ext = b'RW 20480 SPARSE "disk.vmdk"\n'
    for raw in (
            b'# comment \x00 tail\n' + good,
            good.replace(ct, b'') + b'\x00' + ct,
            good.replace(ext, b'') + b'\x00' + ext,
            b'# Disk DescriptorFile\nversion=1\x00\n' + ct + ext,
            b'ddb.x = "1\x00"\n' + ct + ext,
            good + b'\x00' + b'RW 1 FLAT "/etc/shadow" 0\n',
            good):
        for footer in (False, True):
            run('vmdk', dict(desc_raw=raw.hex(), footer=footer,
                             desc_num=2), 'vmdk-nul')
    # header / footer disagreement at large descriptor sizes (beyond the
    # 1 MiB capture clamp): every pair of differing sector counts
    big = (1, 20, 2047, 2048, 2049, 4096, 2 ** 32, 2 ** 64 - 1)
    for hd in big:
        for fd in big:
            if hd != fd:
                run('vmdk', dict(desc_num=hd, footer=True,
                                 grain_data=1100 * 1024,
                                 footer_over={'desc_num': fd}),
                    'vmdk-footer-big')
    for ver in (-32768, -1, 0, 1, 2, 3, 256, 257, 32767):
        run('luks', dict(version=ver), 'luks-version')
    for ln in (512, 513, 4096):
        run('qed', dict(length=ln), 'qed')
    for fmt in ('raw', 'vhd', 'vdi', 'iso', 'vhdx', 'gpt', 'qcow2', 'luks',
                'vmdk'):
        run(fmt, {}, 'default-clean')
    # descriptor layouts: exact fill of its sectors, no final newline, the
    # createType line last - alone and with an unsafe line
    for ef in (False, True):
        for fn in (False, True):
            for tl in (False, True):
                for footer in (False, True):
                    lay = dict(exact_fill=ef, final_newline=fn, type_last=tl,
                               footer=footer)
                    run('vmdk', lay, 'vmdk-layout')
                    for _t, bad in imgstrat.VMDK_UNSAFE_LINES[::4]:
                        run('vmdk', dict(lay, lines=base + [bad]),
                            'vmdk-layout')
    col.exhaustive.setdefault(sub, True)


# -------------------------------------------------------------- generated

def _sched_strategy(n, bounds):
    from hypothesis import strategies as st
    return st.one_of(st.just(['fixed', 512]), st.just(['sizes', [n]]),
                     chunking.schedules(n, bounds, allow_tiny=n <= 70000))


def check_traits(col, case, sub='traits'):
    from vcheck import imggen
    img = imggen.build(case['fmt'], case['params'])
    cut = case.get('cut')
    data = img.data if cut is None else img.data[:cut]
    out, v = outcome_of(img.fmt, data, case['schedule'])
    r = judge(col, sub, img, out, case, cut=cut)
    default_len = len(imggen.BUILDERS[img.fmt]().params)
    col.case(sub, _key(img.fmt, case['params'], (cut, case['schedule'])),
             bool(img.unsafe) or cut is not None or
             len(case['params']) > 2,
             ['fmt=' + img.fmt, 'verdict=' + r] +
             ['trait=' + t for t in sorted(img.unsafe)] +
             (['truncated'] if cut is not None else []),
             {'fmt': img.fmt, 'params': case['params'], 'cut': cut,
              'outcome': out, 'unsafe': sorted(img.unsafe)})


def traits(col, seed, max_examples, fmts, truncate):
    from hypothesis import strategies as st
    from vcheck import imggen, imgstrat

    @st.composite
    def cases(draw):
        fmt = draw(st.sampled_from(fmts))
        if fmt == 'vhdx':
            params = draw(imgstrat.vhdx_params(conformant=True))
        else:
            params = draw(imgstrat.params_for(
                fmt, safe=True if truncate else draw(
                    st.sampled_from([True, None, None]))))
        img = imggen.build(fmt, params)
        cut = None
        if truncate:
            need = _need(img)
            cands = sorted({b + d for b in img.boundaries + [need]
                            for d in (-1, 0) if 0 <= b + d < need})
            if not cands:
                cands = [0]
            cut = draw(st.one_of(st.sampled_from(cands),
                                 st.integers(0, max(0, need - 1))))
        n = len(img.data) if cut is None else cut
        sched = draw(_sched_strategy(n, img.boundaries))
        return {'fmt': fmt, 'params': params, 'schedule': sched, 'cut': cut}
    core.run_given(col, cases(), lambda c, case: check_traits(
        c, case, 'truncate' if truncate else 'traits'), seed, max_examples)


def check_mismatch(col, case, sub='mismatch'):
    """Every inspector whose signature is absent must refuse the content."""
    from vcheck import imgstrat
    data, img = imgstrat.realize(case['content'])
    tested = 0
    for fmt in sigmodel.NON_RAW:
        if sigmodel.sig(fmt, data) != 'absent':
            continue
        out, v = outcome_of(fmt, data, case['schedule'])
        tested += 1
        if out == 'pass':
            raise Violation(
                sub, '%s inspector accepted %d bytes that do not carry its '
                'signature (match=%r complete=%r)' % (fmt, len(data), v[1],
                                                      v[2]),
                dict(case, inspector=fmt))
        if out.startswith('raises:'):
            raise Violation(sub, '%s safety_check raised %s on foreign '
                            'content' % (fmt, out[7:]),
                            dict(case, inspector=fmt))
    col.case(sub, (core.h64(data), case['schedule']), tested > 0,
             'kind=' + case['content'].get('kind', '?'),
             {'content_kind': case['content'].get('kind'),
              'len': len(data), 'inspectors_tested': tested})


def mismatch(col, seed, max_examples, fmts):
    from hypothesis import strategies as st
    from vcheck import imgstrat

    @st.composite
    def cases(draw):
        content = draw(imgstrat.any_content(fmts))
        data, _img = imgstrat.realize(content)
        sched = draw(st.sampled_from([['fixed', 512], ['sizes', [len(data)]],
                                      ['fixed', 4096]]))
        return {'content': content, 'schedule': sched}
    core.run_given(col, cases(), lambda c, case: check_mismatch(c, case),
                   seed, max_examples)


CHECK_METHODS = {
    'qcow2': ('check_backing_file', 'check_data_file',
              'check_unknown_features'),
    'vmdk': ('check_descriptor', 'check_footer'),
    'gpt': ('check_mbr_partitions',),
    'luks': ('check_version',),
}
CHECK_NAME = {'check_backing_file': 'backing_file',
              'check_data_file': 'data_file',
              'check_unknown_features': 'unknown_features',
              'check_descriptor': 'descriptor', 'check_footer': 'footer',
              'check_mbr_partitions': 'mbr', 'check_version': 'version'}
FAULTS = ('Exception', 'ValueError', 'KeyError', 'struct.error',
          'RuntimeError', 'ZeroDivisionError', 'MemoryError', 'OSError',
          'UnicodeDecodeError', 'ImageFormatError')


def _make_exc(name, F):
    if name == 'struct.error':
        return struct.error('injected')
    if name == 'UnicodeDecodeError':
        return UnicodeDecodeError('ascii', b'\xff', 0, 1, 'injected')
    if name == 'ImageFormatError':
        return F.ImageFormatError('injected')
    return getattr(__import__('builtins'), name)('injected')


def check_faults(col):
    """An error inside a check counts as a failure of that check."""
    from vcheck import imggen
    F = imgdrive.fi()
    sub = 'checkfault'
    for fmt, methods in CHECK_METHODS.items():
        for meth in methods:
            params = dict(footer=True) if meth == 'check_footer' else {}
            img = imggen.build(fmt, params)
            for fault in FAULTS:
                called = []

                def boom(self, _f=fault, _c=called):
                    _c.append(1)
                    raise _make_exc(_f, F)

                cls = type('Faulty', (F.ALL_FORMATS[fmt],), {meth: boom})
                insp = cls()
                for chunk in chunking.chunks(img.data, ['fixed', 512]):
                    insp.eat_chunk(chunk)
                insp.finish()
                out = imgdrive.safety_outcome(insp)
                case = {'fmt': fmt, 'params': params, 'method': meth,
                        'fault': fault}
                col.case(sub, (fmt, meth, fault), True, fmt,
                         dict(case, outcome=out))
                if not called:
                    col.seam(sub, '%s.%s override not invoked' % (fmt, meth))
                    continue
                ok = (out.startswith('failed:') and
                      CHECK_NAME[meth] in out[7:].split(','))
                if fault == 'ImageFormatError' and out == 'refused':
                    ok = True     # documented: may raise ImageFormatError
                if not ok:
                    raise Violation(
                        sub, '%s: %s raising %s inside the check gave '
                        'safety_check outcome %r, expected failure of check '
                        '%r' % (fmt, meth, fault, out, CHECK_NAME[meth]),
                        case)
    col.exhaustive[sub] = True


# --------------------------------------------------------------------- CLI

def _scratch():
    for d in ('/dev/shm', os.environ.get('TMPDIR')):
        if d and os.path.isdir(d) and os.access(d, os.W_OK):
            return tempfile.mkdtemp(prefix='vcheck-c02-', dir=d)
    return tempfile.mkdtemp(prefix='vcheck-c02-')


def cli_inprocess(path, verbose=False):
    """Exit status of cli.main() for `-i path` (non-SystemExit error = 1)."""
    from oslo_utils.imageutils import cli
    argv = sys.argv
    sys.argv = ['oslo.utils.imageutils', '-i', path] + (
        ['-v'] if verbose else [])
    buf = io.StringIO()
    try:
        with contextlib.redirect_stdout(buf), contextlib.redirect_stderr(buf):
            try:
                cli.main()
                return 0
            except SystemExit as e:
                code = e.code
                return 0 if code in (0, None) else (
                    code if isinstance(code, int) else 1)
            except Exception:
                return 1
    finally:
        sys.argv = argv


def cli_subprocess(path):
    env = dict(os.environ, PYTHONPATH=core.REPO)
    p = subprocess.run([sys.executable, '-m', 'oslo_utils.imageutils', '-i',
                        path], cwd=core.REPO, env=env,
                       stdout=subprocess.DEVNULL, stderr=subprocess.DEVNULL)
    return p.returncode


def library_says_safe(path):
    F = imgdrive.fi()
    try:
        insp = F.detect_file_format(path)
    except Exception:
        return False, 'detect-raised'
    if insp is None:
        return False, 'none'
    out = imgdrive.safety_outcome(insp)
    return out == 'pass', '%s:%s' % (insp, out)


def check_cli(col, case, tmpdir, sub='cli', real=False):
    from vcheck import imgstrat
    data, img = imgstrat.realize(case['content'])
    path = os.path.join(tmpdir, 'img-%016x' % core.h64(data))
    with open(path, 'wb') as f:
        f.write(data)
    try:
        code = cli_subprocess(path) if real else cli_inprocess(
            path, verbose=case.get('verbose', False))
        lib_safe, lib_note = library_says_safe(path)
    finally:
        os.unlink(path)
    kind = case['content'].get('kind', '?')
    pure = (img is not None and not case['content'].get('edits') and
            case['content'].get('cut') is None and
            not case['content'].get('extend'))
    col.case(sub, (core.h64(data), real), kind != 'valid' or
             (img is not None and len(img.params) > 2),
             ['kind=' + kind, 'exit=%d' % min(code, 2),
              'real' if real else 'inprocess'],
             {'content_kind': kind, 'len': len(data), 'exit': code,
              'library': lib_note})
    if code == 0 and not lib_safe:
        raise Violation(sub, 'CLI exited 0 on a %d-byte file for which the '
                        'library says %s' % (len(data), lib_note),
                        dict(case, real=real))
    if pure:
        d, m = sigmodel.classify(data)
        alone = (d | m) <= {img.fmt}
        if img.unsafe and alone and code == 0:
            raise Violation(sub, 'CLI exited 0 on a %s image with unsafe '
                            'trait(s) %s' % (img.fmt, sorted(img.unsafe)),
                            dict(case, real=real))
        if img.clean and alone and code != 0 and img.fmt != 'qed':
            raise Violation(sub, 'CLI exited %d on a clean %s image '
                            '(library: %s)' % (code, img.fmt, lib_note),
                            dict(case, real=real))


def cli(col, seed, max_examples, fmts, real):
    from hypothesis import strategies as st
    from vcheck import imgstrat
    tmpdir = _scratch()
    try:
        # a missing path and a directory exit non-zero
        for bad in (os.path.join(tmpdir, 'does-not-exist'), tmpdir):
            code = cli_subprocess(bad) if real else cli_inprocess(bad)
            col.case('cli', ('badpath', bad == tmpdir, real), True,
                     'badpath', {'path_is_dir': bad == tmpdir, 'exit': code})
            if code == 0:
                raise Violation('cli', 'CLI exited 0 for %s'
                                % ('a directory' if bad == tmpdir else
                                   'a missing path'),
                                {'badpath': 'dir' if bad == tmpdir
                                 else 'missing', 'real': real})

        @st.composite
        def cases(draw):
            content = draw(st.one_of(
                imgstrat.valid_images(fmts), imgstrat.any_trait_images(fmts),
                imgstrat.any_content(fmts)))
            return {'content': content, 'verbose': draw(st.booleans())}
        core.run_given(col, cases(), lambda c, case: check_cli(
            c, case, tmpdir, real=real), seed, max_examples,
            shrink=not real)
    finally:
        shutil.rmtree(tmpdir, ignore_errors=True)


# ------------------------------------------------------------------- tasks

SMALL = ('raw', 'qcow2', 'vhd', 'vmdk', 'vdi', 'qed', 'gpt', 'luks')
ALLF = SMALL + ('iso', 'vhdx')


def tasks(tier, seed):
    out = [Task('sweeps', sweeps), Task('checkfault', check_faults)]
    for first in range(15):
        out.append(Task('mbr', mbr_family, first=first,
                        fill=0 if first % 2 else 11 + first))
    for fill in ((1,) if tier == 'quick' else (1, 2, 3)):
        out.append(Task('qcow2grid', qcow2_grid, fill=fill))
    if tier == 'quick':
        plan = dict(traits=(SMALL, 500, 4), traits_big=(('iso', 'vhdx'), 120,
                                                         2),
                    trunc=(ALLF, 300, 2), mismatch=(ALLF, 120, 2),
                    cli=(ALLF, 150, 2), cli_real=(SMALL, 15, 2))
    else:
        plan = dict(traits=(SMALL, 6000, 6), traits_big=(('iso', 'vhdx'),
                                                          1200, 4),
                    trunc=(ALLF, 3000, 4), mismatch=(ALLF, 1500, 4),
                    cli=(ALLF, 2500, 4), cli_real=(ALLF, 125, 4))
    for key in ('traits', 'traits_big'):
        fmts, ex, shards = plan[key]
        for i in range(shards):
            out.append(Task('traits', traits,
                            seed=core.derive_seed(seed, ID, key, i),
                            max_examples=ex, fmts=fmts, truncate=False))
    fmts, ex, shards = plan['trunc']
    for i in range(shards):
        out.append(Task('truncate', traits,
                        seed=core.derive_seed(seed, ID, 'trunc', i),
                        max_examples=ex, fmts=fmts, truncate=True))
    fmts, ex, shards = plan['mismatch']
    for i in range(shards):
        out.append(Task('mismatch', mismatch,
                        seed=core.derive_seed(seed, ID, 'mis', i),
                        max_examples=ex, fmts=fmts))
    fmts, ex, shards = plan['cli']
    for i in range(shards):
        out.append(Task('cli', cli, seed=core.derive_seed(seed, ID, 'cli', i),
                        max_examples=ex, fmts=fmts, real=False))
    fmts, ex, shards = plan['cli_real']
    for i in range(shards):
        out.append(Task('cli', cli,
                        seed=core.derive_seed(seed, ID, 'clireal', i),
                        max_examples=ex, fmts=fmts, real=True))
    return out


def replay(rec):
    from vcheck import imggen
    case = rec['case']
    sub = rec.get('sub', '')
    col = core.Collector()
    if sub == 'checkfault':
        check_faults(col)
    elif sub.startswith('cli'):
        if 'badpath' in case:
            return
        tmpdir = _scratch()
        try:
            check_cli(col, case, tmpdir, real=case.get('real', False))
        finally:
            shutil.rmtree(tmpdir, ignore_errors=True)
    elif sub == 'mismatch':
        check_mismatch(col, case)
    elif sub in ('mbr', 'qcow2grid', 'sweeps'):
        img = imggen.build(case['fmt'], case['params'])
        out, _v = outcome_of(case['fmt'], img.data, case['schedule'])
        judge(col, sub, img, out, case)
    else:
        check_traits(col, case, sub or 'traits')
