"""C09 - exception-handling helpers never lose, replace or invent an exception.

Program generation: handler bodies are small ASTs (JSON lists) interpreted
against the real helpers.  A pure reference semantics (``predict``) written
from the property statement says, for every ``save_and_reraise_exception``
context in the program, what must come out of it (nothing / the saved
exception object / the new exception raised by the body), how many times the
recorder logger must have been told about a dropped original and whether the
traceback of the original raise must be the tail of the traceback seen by the
catcher.  The interpreter then runs the same program for real, records what
each context did, and the two are compared.

Every body runs inside an ``except`` block (the statement presupposes an
active exception).

Other sub-checks enumerate finite tables for exception_filter (construction
style x way of use x exception kind x predicate result), remove_path_on_error
(path state x body x remover) and raise_with_cause (inside / outside a
handler x explicit / implicit cause x class).
"""

import functools
import itertools
import logging
import os
import shutil
import sys
import tempfile

from vcheck import core
from vcheck.core import Task, Violation

ID = 'C09'
LEVEL = 'exploration'
BUDGET = {'quick': 45, 'thorough': 420}
# deterministic sub-checks repeated in a `python -O` child (core.optimized_child)
OPT_SUBS = ('sare/direct', 'filter', 'remove_path', 'raise_with_cause', 'sare/reuse')
# documented call interface the generated calls rely on (vcheck/callstyle.py)
INTERFACE = [('oslo_utils.excutils', None), ('oslo_utils.fileutils', ['remove_path_on_error', 'delete_if_exists'])]
RULE = ('save_and_reraise_exception: handler bodies are sequences over {nop, '
        'raise_catch (raise and catch an inner exception), set reraise '
        'on/off, strip_tb (body code clears __traceback__ of the handled '
        'exception), capture(), force_reraise() caught by the body, nested '
        'save_and_reraise_exception on the same exception, inner handler '
        '(save_and_reraise_exception on a different exception raised and '
        'caught inside the body), terminal raise_new / force_reraise() / bare '
        'raise}; all programs with at most N nodes (quick 3, thorough 4) are '
        'enumerated for 5 kinds of original exception (plain, mandatory '
        'constructor arguments, chained, already carrying a traceback, '
        'BaseException subclass) x initial reraise flag x optional '
        'force_reraise() after the block; bodies with N+1 nodes are run with '
        'one (kind, flag) each, rotating (quick: all of them, thorough: the '
        'half selected by the seed); Hypothesis adds bodies of up '
        'to 4 ops per level and depth 4, decoded from integer lists. Each '
        'context is compared with a reference semantics on outcome (object '
        'identity), traceback tail, __cause__/args, and error-level logger '
        'calls. exception_filter / remove_path_on_error / raise_with_cause: '
        'full tables (style x use x kind x predicate result; path state x '
        'body x remover; place x cause x class). Non-trivial: the body '
        'contains raise_catch, nested, inner or a flag toggle, or the '
        'exception class needs constructor arguments / derives from '
        'BaseException only (filter: also a non-bool predicate result or a '
        'bound filter); distinct by program text.')
ASSUMPTIONS = [
    'every generated body runs inside an except block (active exception)',
    'the reference semantics in predict() is a correct reading of the '
    'statement: body completes => saved object re-raised iff reraise is true '
    'at exit, body raises => that object propagates and the original is '
    'logged (error level, once) iff reraise is true at that moment',
    'a logging call counts when made through the logger= object at level '
    'error/exception/critical (or log(>=40)); lower levels are ignored',
    'traceback claim = the (file, function, line) chain of the original '
    'raise is the tail of the chain seen by the catcher; it is asserted '
    'only when the traceback was intact when the context (re)captured it',
    '__context__ is not judged (the interpreter rewrites it on every raise '
    'inside a handler)',
    'remove_path_on_error with a BaseException that is not an Exception: '
    'only identity of the propagating object is asserted (docstring says '
    '"any exception", the statement says "removes the path": unspecified)',
    'greenthread switches are modelled only by raise-and-catch',
]

# 'group' / 'basegroup': PEP 654 exception groups (one exception *object*
# like any other: identity, traceback and the predicate's verdict concern the
# group, never its members)
# 'falsy': an exception object that is False in a boolean context (an empty
# aggregate error with __len__ 0): `if not value` is not `value is None`
KINDS = ('plain', 'args', 'chained', 'retb', 'base', 'group', 'basegroup',
         'falsy')


# --------------------------------------------------------------------------
# exception zoo (harness side)

class PlainError(Exception):
    pass


class NeedsArgs(Exception):
    def __init__(self, a, b):
        super().__init__(a, b)
        self.a = a
        self.b = b


class EmptyAggregate(Exception):
    """an error collection that happens to be empty: falsy, len() == 0"""

    def __len__(self):
        return 0


class Interrupt(BaseException):
    """custom BaseException subclass (not an Exception)"""


class CauseError(Exception):
    pass


class InnerError(Exception):
    pass


class InnerNeedsArgs(Exception):
    def __init__(self, a, *, key):
        super().__init__(a)
        self.key = key


class NewError(Exception):
    pass


class NewInterrupt(BaseException):
    pass


class OtherError(Exception):
    pass


class Translated(Exception):
    pass


LAST = []        # the most recent exception object created by _l3


def _early():
    raise PlainError('raised before')


def _l3(kind):
    del LAST[:]
    if kind == 'plain':
        e = PlainError('boom')
        LAST.append(e)
        raise e
    if kind == 'args':
        e = NeedsArgs('a', 2)
        LAST.append(e)
        raise e
    if kind == 'base':
        e = Interrupt('stop')
        LAST.append(e)
        raise e
    if kind == 'falsy':
        e = EmptyAggregate('nothing inside')
        LAST.append(e)
        raise e
    if kind == 'group':
        e = ExceptionGroup('several', [OtherError('m1'), OtherError('m2')])
        LAST.append(e)
        raise e
    if kind == 'basegroup':
        e = BaseExceptionGroup('mixed', [
            NewInterrupt('i'),
            ExceptionGroup('nested', [OtherError('m3')])])
        LAST.append(e)
        raise e
    if kind == 'chained':
        try:
            raise CauseError('root cause')
        except CauseError as c:
            e = PlainError('chained')
            LAST.append(e)
            raise e from c
    if kind == 'retb':
        saved = None
        try:
            _early()
        except PlainError as e:
            saved = e
        LAST.append(saved)
        raise saved
    raise core.HarnessError('unknown kind %r' % (kind,))


def _l2(kind):
    _l3(kind)


def _l1(kind):
    _l2(kind)


def _z3(variant):
    if variant % 2:
        raise InnerNeedsArgs('z', key=variant)
    raise InnerError('z%d' % variant)


def _z2(variant):
    _z3(variant)


def chain(tb):
    out = []
    while tb is not None:
        co = tb.tb_frame.f_code
        out.append((co.co_filename, co.co_name, tb.tb_lineno))
        tb = tb.tb_next
    return out


def _short(ch):
    return ['%s:%d' % (n, ln) for _f, n, ln in ch]


def _ours(e):
    """Never swallow a real interrupt of the harness itself."""
    return not isinstance(e, (KeyboardInterrupt, SystemExit, GeneratorExit,
                              core.HarnessError, Violation))


class RecLogger:
    ERRORISH = ('error', 'exception', 'critical', 'fatal')

    def __init__(self):
        self.calls = []

    def isEnabledFor(self, level):
        return True

    def __getattr__(self, name):
        if name.startswith('__'):
            raise AttributeError(name)

        def rec(*a, **k):
            self.calls.append((name, a, k))
        return rec

    def errors(self):
        out = []
        for name, a, _k in self.calls:
            if name in self.ERRORISH:
                out.append(a)
            elif name == 'log' and a and isinstance(a[0], int) and a[0] >= 40:
                out.append(a[1:])
        return out


# --------------------------------------------------------------------------
# reference semantics

SIMPLE = ('nop', 'raise_catch', 'set', 'strip_tb', 'capture', 'force_caught')
COMPOUND = ('nested', 'inner')
TERMINAL = ('raise_new', 'force', 'bare')
FG = 'force_reraise_consumed'


def pstr(path):
    return '/'.join(str(i) for i in path) or 'top'


def predict(case):
    """Return {path: expectation}; expectation keys: outcome ('none', an
    exception id 'X'/'Z<path>' or 'new:<path>'), logs (int), tail
    (True = must hold, None = not asserted), content (id whose class name
    must appear in the log call) and known (finding name) when the context
    needs an exception that an earlier force_reraise() already consumed."""
    preds = {}
    stripped = {'X': False}

    def body(ops, reraise, exc, path):
        has = True
        saved_tail = not stripped[exc]

        def finish(outcome, tail=None, known=None):
            exp = {'outcome': outcome, 'logs': 1 if reraise else 0,
                   'tail': tail, 'content': None}
            if outcome == exc:
                # the body raised the saved exception itself (force_reraise
                # or a bare raise): nothing is being dropped, the statement
                # only speaks about a *new* exception -> logging unspecified
                exp['logs'] = None
            elif reraise:
                exp['content'] = exc
                if not has:
                    known = FG
            if known:
                exp['known'] = known
            preds[path] = exp
            return outcome

        for i, op in enumerate(ops):
            p = path + (i,)
            k = op[0]
            if k in ('nop', 'raise_catch'):
                continue
            if k == 'set':
                reraise = bool(op[1])
            elif k == 'strip_tb':
                stripped[exc] = True
            elif k == 'capture':
                has = True
                saved_tail = not stripped[exc]
            elif k == 'force_caught':
                if has:
                    preds[p] = {'outcome': exc, 'tail': saved_tail or None}
                    stripped[exc] = not saved_tail
                    has = False
                else:
                    preds[p] = {'outcome': exc, 'tail': None, 'known': FG}
            elif k == 'nested':
                r = body(op[2], bool(op[1]), exc, p)
                if r not in ('none', exc):
                    return finish(r)
            elif k == 'inner':
                z = 'Z' + pstr(p)
                stripped[z] = False
                r = body(op[2], bool(op[1]), z, p)
                if r not in ('none', z):
                    return finish(r)
            elif k == 'raise_new':
                return finish('new:' + pstr(p))
            elif k == 'force':
                if has:
                    tail = saved_tail or None
                    stripped[exc] = not saved_tail
                    r = finish(exc, tail)
                    return r
                return finish(exc, None, FG)
            elif k == 'bare':
                return finish(exc, (not stripped[exc]) or None)
            else:
                raise core.HarnessError('unknown op %r' % (op,))
        # the body completed
        if reraise:
            exp = {'outcome': exc, 'logs': 0, 'tail': saved_tail or None,
                   'content': None}
            if has:
                stripped[exc] = not saved_tail
            else:
                exp['known'] = FG
                exp['tail'] = None
            preds[path] = exp
            has_after = False
        else:
            preds[path] = {'outcome': 'none', 'logs': 0, 'tail': None,
                           'content': None}
            has_after = has
        preds[path]['has_after'] = has_after
        preds[path]['saved_tail'] = saved_tail
        return preds[path]['outcome']

    top = body(case['body'], bool(case['reraise0']), 'X', ())
    if case.get('post'):
        # ctx.force_reraise() after the block (only generated when the block
        # ends quietly)
        if top == 'none':
            exp = preds[()]
            if exp.get('has_after'):
                preds[('post',)] = {'outcome': 'X',
                                    'tail': exp['saved_tail'] or None}
            else:
                preds[('post',)] = {'outcome': 'X', 'tail': None, 'known': FG}
        # else: never reached
    return preds


def known_shape(case):
    try:
        return any(e.get('known') for e in predict(case).values())
    except Exception:
        return False


# --------------------------------------------------------------------------
# interpreter

class Env:
    def __init__(self, excutils, kind):
        self.excutils = excutils
        self.kind = kind
        self.excs = {}
        self.chains = {}
        self.snap = {}
        self.news = {}
        self.logs = {}
        self.obs = {}
        self.extra = []

    def register(self, eid, e):
        self.excs[eid] = e
        self.chains[eid] = chain(e.__traceback__)
        self.snap[eid] = (e.__cause__, e.args)

    def ident(self, e):
        for k, v in self.excs.items():
            if v is e:
                return k
        for k, v in self.news.items():
            if v is e:
                return 'new:' + pstr(k)
        return 'foreign:%s' % (repr(e)[:120],)

    def observe(self, path, e):
        self.obs[path] = ('raised', e, chain(e.__traceback__))


def _make_inner(env, variant, exc_id):
    if variant == 'samecls':
        cls = type(env.excs[exc_id])
        if cls is NeedsArgs:
            return NeedsArgs('inner', 0)
        if cls is InnerNeedsArgs:
            return InnerNeedsArgs('inner', key=0)
        if issubclass(cls, BaseExceptionGroup):
            return cls('inner of the same class',
                       list(env.excs[exc_id].exceptions))
        return cls('inner of the same class')
    return InnerError('inner')


def _make_new(env, variant):
    variant = variant.partition('>')[0]
    if variant == 'base':
        return NewInterrupt('new interrupt')
    if variant == 'same':
        cls = type(env.excs['X'])
        if cls is NeedsArgs:
            return NeedsArgs('new', 1)
        if issubclass(cls, BaseExceptionGroup):
            return cls('new of the same class',
                       list(env.excs['X'].exceptions))
        return cls('new of the same class')
    return NewError('new')


def _with(env, op, p, exc_id):
    log = RecLogger()
    env.logs[p] = log
    try:
        with env.excutils.save_and_reraise_exception(
                reraise=bool(op[1]), logger=log) as c2:
            _run_body(env, c2, op[2], p, exc_id)
    except BaseException as e:
        if not _ours(e):
            raise
        env.observe(p, e)
        if e is not env.excs[exc_id]:
            raise           # only the context's own exception is swallowed
    else:
        env.obs[p] = ('none',)


def _run_body(env, ctx, body, path, exc_id):
    for i, op in enumerate(body):
        p = path + (i,)
        k = op[0]
        if k == 'nop':
            pass
        elif k == 'raise_catch':
            try:
                raise _make_inner(env, op[1], exc_id)
            except (InnerError, PlainError, NeedsArgs, Interrupt,
                    InnerNeedsArgs, BaseExceptionGroup, EmptyAggregate):
                pass
        elif k == 'set':
            ctx.reraise = bool(op[1])
        elif k == 'strip_tb':
            env.excs[exc_id].__traceback__ = None
        elif k == 'capture':
            ctx.capture()
        elif k == 'force_caught':
            try:
                ctx.force_reraise()
            except BaseException as e:
                if not _ours(e):
                    raise
                env.observe(p, e)
            else:
                env.obs[p] = ('none',)
        elif k == 'nested':
            _with(env, op, p, exc_id)
        elif k == 'inner':
            zid = 'Z' + pstr(p)
            try:
                _z2(len(p) + i)
            except (InnerError, InnerNeedsArgs) as z:
                env.register(zid, z)
                _with(env, op, p, zid)
        elif k == 'raise_new':
            e = _make_new(env, op[1])
            env.news[p] = e
            how = op[1].partition('>')[2]
            if how == 'saved':
                raise e from env.excs[exc_id]
            if how == 'none':
                raise e from None
            if how == 'other':
                raise e from OtherError('unrelated cause')
            raise e
        elif k == 'force':
            ctx.force_reraise()
            env.extra.append('force_reraise() at %s returned' % pstr(p))
        elif k == 'bare':
            raise
        else:
            raise core.HarnessError('unknown op %r' % (op,))


REUSES = ('off', 'body_raised', 'capture_only')


class PriorError(Exception):
    """the exception of an earlier, finished use of the same instance"""


def _used_before(env, how, log, reraise0):
    """An instance of save_and_reraise_exception that has already been
    through one episode with another exception, in which force_reraise was
    never due (so nothing of that episode may show in the next one); the
    public reraise attribute is then set to what the case asks for."""
    ctx = env.excutils.save_and_reraise_exception(reraise=False, logger=log)
    try:
        raise PriorError('earlier episode')
    except PriorError:
        if how == 'off':
            with ctx:
                pass
        elif how == 'body_raised':
            try:
                with ctx:
                    raise InnerError('earlier body failed')
            except InnerError:
                pass
        elif how == 'capture_only':
            ctx.capture()
        else:
            raise core.HarnessError('reuse %r' % (how,))
    ctx.reraise = bool(reraise0)
    return ctx


def _handler(env, case):
    try:
        _l1(env.kind)
    except BaseException as e:
        if not _ours(e):
            raise
        env.register('X', e)
        log = RecLogger()
        env.logs[()] = log
        if case.get('reuse'):
            mgr = _used_before(env, case['reuse'], log, case['reraise0'])
            if log.errors():
                env.extra.append('the earlier episode logged %r'
                                 % (log.errors(),))
        else:
            mgr = env.excutils.save_and_reraise_exception(
                reraise=bool(case['reraise0']), logger=log)
        with mgr as ctx:
            if ctx is None or not hasattr(ctx, 'reraise'):
                env.extra.append('__enter__ returned %r' % (ctx,))
            _run_body(env, ctx, case['body'], (), 'X')
        env.obs[()] = ('none',)
        if case.get('post'):
            try:
                ctx.force_reraise()
            except BaseException as e2:
                if not _ours(e2):
                    raise
                env.observe(('post',), e2)
            else:
                env.obs[('post',)] = ('none',)


def run_program(case, sub='sare', preds=None):
    """Run one program for real and compare with the reference semantics.

    Returns (preds, known) where known is the finding name if the program is
    in the zone of an open finding; raises Violation on disagreement."""
    from oslo_utils import excutils
    if preds is None:
        preds = predict(case)
    env = Env(excutils, case['kind'])
    try:
        _handler(env, case)
    except BaseException as e:
        if not _ours(e):
            raise
        env.observe((), e)
    known = None
    for exp in preds.values():
        if exp.get('known'):
            known = exp['known']
    problems = list(env.extra)
    for path in sorted(preds, key=lambda p: (len(p), repr(p))):
        exp = preds[path]
        where = pstr(path)
        obs = env.obs.get(path)
        if obs is None:
            problems.append('%s: not reached (control flow diverged before)'
                            % where)
            continue
        got = 'none' if obs[0] == 'none' else env.ident(obs[1])
        if got != exp['outcome']:
            problems.append('%s: expected %s, got %s'
                            % (where, exp['outcome'], got))
            continue
        if got in env.excs:
            e = obs[1]
            cause, args = env.snap[got]
            if e.__cause__ is not cause:
                problems.append('%s: __cause__ changed to %r'
                                % (where, e.__cause__))
            if e.args != args:
                problems.append('%s: args changed to %r' % (where, e.args))
            if exp.get('tail'):
                want = env.chains[got]
                seen = obs[2]
                if not want or seen[-len(want):] != want:
                    problems.append(
                        '%s: traceback of the original raise %s is not the '
                        'tail of the traceback seen %s'
                        % (where, _short(want), _short(seen)))
        if exp.get('logs') is not None:
            log = env.logs.get(path)
            errs = log.errors() if log is not None else []
            if len(errs) != exp['logs']:
                problems.append('%s: %d error-level logger call(s), expected '
                                '%d' % (where, len(errs), exp['logs']))
            elif exp['logs'] and exp.get('content'):
                name = type(env.excs[exp['content']]).__name__
                text = repr(errs[0])
                if name not in text:
                    problems.append('%s: logged text does not mention the '
                                    'dropped %s: %s' % (where, name,
                                                        text[:200]))
    for path in env.obs:
        if path not in preds:
            problems.append('%s: executed but never expected'
                            % pstr(path))
    if problems:
        raise Violation(sub, '; '.join(problems)[:1500], case)
    return preds, known


# --------------------------------------------------------------------------
# program enumeration

ENUM_SIMPLE = (['raise_catch', 'inner'], ['raise_catch', 'samecls'],
               ['set', True], ['set', False], ['strip_tb'], ['capture'],
               ['force_caught'])
# raise_new variants: class of the new exception, optionally '>' how it is
# chained: 'saved' = raise New() from <the saved exception>, 'none' = from
# None, 'other' = from an unrelated exception.  Chaining is the body's
# business and must not change what the helper does.
ENUM_TERMINAL = (['raise_new', 'plain'], ['raise_new', 'base'],
                 ['raise_new', 'same'], ['raise_new', 'plain>saved'],
                 ['raise_new', 'same>none'], ['raise_new', 'plain>other'],
                 ['force'], ['bare'])


@functools.lru_cache(maxsize=None)
def _bodies(size, depth):
    """All bodies (tuples of ops as nested tuples) with exactly `size` nodes
    and nesting depth <= depth; a terminal op may only come last."""
    if size == 0:
        return ((),)
    out = []
    # first op, then the rest
    for first_size in range(1, size + 1):
        firsts = []
        if first_size == 1:
            firsts.extend(tuple(o) for o in ENUM_SIMPLE)
        if depth > 0:
            for inner in _bodies(first_size - 1, depth - 1):
                for kind in COMPOUND:
                    for r0 in (True, False):
                        firsts.append((kind, r0, inner))
        rests = _bodies(size - first_size, depth)
        for f in firsts:
            for r in rests:
                out.append((f,) + r)
    if size == 1:
        out.extend((tuple(t),) for t in ENUM_TERMINAL)
    return tuple(out)


def _listify(x):
    if isinstance(x, tuple):
        return [_listify(v) for v in x]
    return x


def all_programs(max_size, depth):
    yield ()
    yield (('nop',),)
    for n in range(1, max_size + 1):
        for b in _bodies(n, depth):
            yield b


def features(body, acc=None, depth=0):
    acc = acc if acc is not None else {'ops': set(), 'depth': 0, 'n': 0}
    acc['depth'] = max(acc['depth'], depth)
    for op in body:
        acc['n'] += 1
        acc['ops'].add(op[0])
        if op[0] in COMPOUND:
            features(op[2], acc, depth + 1)
    return acc


def classify(case, preds):
    f = features(case['body'])
    ops = f['ops']
    nontrivial = bool(ops & {'raise_catch', 'nested', 'inner', 'set'}) or \
        case['kind'] in ('args', 'base')
    cls = ['kind=' + case['kind'],
           'top=' + preds[()]['outcome'].split(':')[0],
           'depth=%d' % f['depth']]
    for o in sorted(ops & {'raise_catch', 'nested', 'inner', 'set', 'strip_tb',
                           'capture', 'force_caught', 'raise_new', 'force',
                           'bare'}):
        cls.append('op=' + o)
    if any(e.get('logs') for e in preds.values()):
        cls.append('logged')
    if case.get('post'):
        cls.append('post_force')
    if case.get('reuse'):
        cls.append('reuse=' + case['reuse'])
        nontrivial = True
    return nontrivial, cls


def _fg_still_fails():
    """Does the recorded F-g case still fail on this tree?  (While it does,
    its class is routed away from the search; once it is repaired the class
    is searched like any other.)  VERIF_NO_ROUTE=1 is a diagnostic switch:
    search the class anyway, to re-find and minimise the finding."""
    if os.environ.get('VERIF_NO_ROUTE'):
        return False
    try:
        run_program(PROBES[0])
    except Violation:
        return True
    return False


def check_case(col, case, sub, route):
    preds = predict(case)
    top = preds[()]['outcome']
    if route and any(e.get('known') for e in preds.values()):
        col.known(sub, FG)
        return top
    run_program(case, sub, preds)
    if any('logs' in e and e['logs'] is None for e in preds.values()):
        col.unspec(sub, 'logging when the body raises the saved exception '
                   'itself')
    nontrivial, cls = classify(case, preds)
    col.case(sub, repr(case), nontrivial, cls, case)
    return top


def enum_programs(col, sizes, depth, shard, nshards, full, stride=1,
                  offset=0):
    """Programs with a node count in `sizes`.  full: every (kind, initial
    flag) for every body - exhaustive; otherwise one (kind, flag) per body,
    rotating with the body index (and only every stride-th body)."""
    sub = 'sare/enum' if full else 'sare/enum-rotating'
    route = _fg_still_fails()
    combos = [(k, r) for k in KINDS for r in (True, False)]
    idx = -1
    for n in sizes:
        bodies = _bodies(n, depth) if n else ((), (('nop',),))
        for body in bodies:
            idx += 1
            if idx % nshards != shard:
                continue
            if not full and (idx // nshards) % stride != offset:
                continue
            if col.out_of_time():
                col.exhaustive[sub] = False
                return
            lbody = _listify(body)
            for kind, r0 in (combos if full else
                             [combos[(idx // nshards) % len(combos)]]):
                case = {'kind': kind, 'reraise0': r0, 'body': lbody,
                        'post': False}
                top = check_case(col, case, sub, route)
                if top == 'none':
                    check_case(col, dict(case, post=True), sub, route)
    if full:
        col.exhaustive.setdefault(sub, True)


def reuse_programs(col, sizes, depth):
    """The same programs run on an instance that has been used before
    (REUSES): a finished episode must leave nothing behind."""
    sub = 'sare/reuse'
    route = _fg_still_fails()
    idx = -1
    for n in sizes:
        bodies = _bodies(n, depth) if n else ((), (('nop',),))
        for body in bodies:
            lbody = _listify(body)
            for kind in KINDS:
                for r0 in (True, False):
                    idx += 1
                    case = {'kind': kind, 'reraise0': r0, 'body': lbody,
                            'post': False, 'reuse': REUSES[idx % len(REUSES)]}
                    top = check_case(col, case, sub, route)
                    if top == 'none':
                        check_case(col, dict(case, post=True), sub, route)
    col.exhaustive.setdefault(sub, False)


_R_SIMPLE = (['nop'], ['raise_catch', 'inner'], ['raise_catch', 'samecls'],
             ['set', True], ['set', False], ['strip_tb'], ['capture'],
             ['capture'])
_R_COMPOUND = (('nested', True), ('nested', False), ('inner', True),
               ('inner', False))
_R_TERMINAL = tuple(ENUM_TERMINAL)


def decode_program(codes):
    """Deterministic decoding of a list of small integers into a program
    (bodies of <= 4 ops, nesting depth <= 4).  A flat integer list is cheap
    for Hypothesis to generate and shrinks towards short, shallow bodies."""
    it = iter(codes)

    def nxt():
        return next(it, 0)

    def body(depth):
        n = nxt() % 5
        ops = []
        for j in range(n):
            table = list(_R_SIMPLE)
            if depth < 4:
                table.extend(_R_COMPOUND)
                table.extend(_R_COMPOUND)
            # force_reraise() caught by the body: rare, most continuations
            # fall into the zone of the recorded finding
            table.append(['force_caught'])
            if j == n - 1:
                table.extend(_R_TERMINAL)
            op = table[nxt() % len(table)]
            if isinstance(op, tuple):
                op = [op[0], op[1], body(depth + 1)]
            ops.append(list(op))
        return ops

    kind = KINDS[nxt() % len(KINDS)]
    flags = nxt()
    case = {'kind': kind, 'reraise0': bool(flags & 1),
            'post': bool(flags & 2), 'body': body(0)}
    if flags & 4 and flags & 8:
        case['reuse'] = REUSES[(flags >> 4) % len(REUSES)]
    return case


def hyp_programs(col, seed, max_examples):
    from hypothesis import strategies as st
    sub = 'sare/random'
    route = _fg_still_fails()
    codes = st.lists(st.integers(0, 255), min_size=4, max_size=80)

    def oracle(col, codes):
        case = decode_program(codes)
        if case['post'] and predict(case)[()]['outcome'] != 'none':
            case = dict(case, post=False)
        check_case(col, case, sub, route)

    core.run_given(col, codes, oracle, seed, max_examples)


# --------------------------------------------------------------------------
# probes of recorded findings

PROBES = [
    {'kind': 'plain', 'reraise0': True, 'body': [['force_caught']],
     'post': False},
    {'kind': 'args', 'reraise0': True, 'body': [['force_caught']],
     'post': False},
    {'kind': 'plain', 'reraise0': True,
     'body': [['force_caught'], ['raise_new', 'plain']], 'post': False},
]


def _registered(name):
    return any(e.get('status') == 'open' and e.get('match') == name
               for e in core.load_known_findings(ID))


def probe_known(col):
    sub = 'sare/probe'
    for case in PROBES:
        try:
            run_program(case, sub)
        except Violation as v:
            col.case(sub, repr(case), True, 'still_fails', case)
            if _registered(FG):
                col.fail(v)
                continue
            col.known(sub, FG + ' (probe still fails; entry not registered '
                      'in known_findings.json yet, see proposed/)')
            col.notes.append('unregistered finding %s: %s' % (FG, v.msg[:300]))
        else:
            col.case(sub, repr(case), True, 'repaired', case)


def _is_fg(rec):
    case = rec.get('case') or {}
    return 'body' in case and 'kind' in case and known_shape(case)


KNOWN = {FG: _is_fg}


# --------------------------------------------------------------------------
# direct calls (capture / force_reraise outside a with block)

def direct_calls(col):
    from oslo_utils import excutils
    sub = 'sare/direct'
    for kind in KINDS:
        for variant in ('capture_force', 'capture_inner_force',
                        'enter_exit_force'):
            case = {'direct': variant, 'kind': kind}
            _direct_case(excutils, case, sub)
            col.case(sub, repr(case), kind in ('args', 'base') or
                     variant != 'capture_force', variant, case)
    for variant in ('capture_check_outside', 'capture_nocheck_outside',
                    'force_nothing'):
        case = {'direct': variant, 'kind': None}
        _direct_case(excutils, case, sub)
        col.case(sub, repr(case), True, variant, case)
    col.exhaustive[sub] = True


def _direct_case(excutils, case, sub):
    variant = case['direct']
    if variant == 'capture_check_outside':
        ctx = excutils.save_and_reraise_exception()
        try:
            ctx.capture(check=True)
        except RuntimeError:
            return
        raise Violation(sub, 'capture(check=True) without an active '
                        'exception did not raise RuntimeError', case)
    if variant in ('capture_nocheck_outside', 'force_nothing'):
        ctx = excutils.save_and_reraise_exception()
        if variant == 'capture_nocheck_outside':
            r = ctx.capture(check=False)
            if r is not ctx:
                raise Violation(sub, 'capture() returned %r' % (r,), case)
        try:
            ctx.force_reraise()
        except RuntimeError:
            return
        except BaseException as e:
            if not _ours(e):
                raise
            raise Violation(sub, 'force_reraise() with nothing captured '
                            'raised %r' % (e,), case)
        raise Violation(sub, 'force_reraise() with nothing captured did not '
                        'raise', case)

    def inner():
        try:
            _l1(case['kind'])
        except BaseException as e:
            if not _ours(e):
                raise
            box.append((e, chain(e.__traceback__)))
            if variant == 'capture_force':
                excutils.save_and_reraise_exception().capture().force_reraise()
            elif variant == 'capture_inner_force':
                ctx = excutils.save_and_reraise_exception().capture()
                try:
                    raise InnerError('x')
                except InnerError:
                    pass
                ctx.force_reraise()
            else:
                # the documented pattern of the unit test: switch reraise
                # off, leave the block, force afterwards
                with excutils.save_and_reraise_exception() as ctx:
                    ctx.reraise = False
                ctx.force_reraise()
    box = []
    try:
        inner()
    except BaseException as e:
        if not _ours(e):
            raise
        orig, want = box[0]
        if e is not orig:
            raise Violation(sub, '%s: raised %r instead of the captured '
                            'object' % (variant, e), case)
        seen = chain(e.__traceback__)
        if seen[-len(want):] != want:
            raise Violation(sub, '%s: original traceback %s is not the tail '
                            'of %s' % (variant, _short(want), _short(seen)),
                            case)
        return
    raise Violation(sub, '%s: nothing raised' % variant, case)


# --------------------------------------------------------------------------
# default logger (logger=None -> the logging module)

class _Count(logging.Handler):
    def __init__(self):
        super().__init__(level=0)
        self.records = []

    def emit(self, record):
        self.records.append(record)


def default_logger(col):
    from oslo_utils import excutils
    sub = 'sare/default_logger'
    root = logging.getLogger()
    h = _Count()
    saved_level = root.level
    saved_disable = logging.root.manager.disable
    root.addHandler(h)
    root.setLevel(logging.DEBUG)
    logging.disable(logging.NOTSET)
    try:
        for kind in KINDS:
            for r0 in (True, False):
                for toggle in (None, True, False):
                    case = {'default_logger': True, 'kind': kind,
                            'reraise0': r0, 'toggle': toggle}
                    _default_logger_case(excutils, h, case, sub)
                    col.case(sub, repr(case), toggle is not None or
                             kind in ('args', 'base'),
                             'toggle=%s' % (toggle,), case)
    finally:
        root.removeHandler(h)
        root.setLevel(saved_level)
        logging.disable(saved_disable)
    col.exhaustive[sub] = True


def _default_logger_case(excutils, h, case, sub):
    del h.records[:]
    new = NewError('second')
    flag = case['reraise0']
    try:
        try:
            _l1(case['kind'])
        except BaseException as e:
            if not _ours(e):
                raise
            with excutils.save_and_reraise_exception(
                    reraise=case['reraise0']) as ctx:
                if case['toggle'] is not None:
                    ctx.reraise = case['toggle']
                    flag = case['toggle']
                raise new
    except BaseException as e:
        if not _ours(e):
            raise
        if e is not new:
            raise Violation(sub, 'body raised a new exception but %r '
                            'propagated' % (e,), case)
    else:
        raise Violation(sub, 'new exception raised by the body was lost',
                        case)
    errs = [r for r in h.records if r.levelno >= logging.ERROR]
    if len(errs) != (1 if flag else 0):
        raise Violation(sub, '%d error record(s) reached the root logger, '
                        'expected %d' % (len(errs), 1 if flag else 0), case)
    if errs:
        try:
            text = errs[0].getMessage()
        except Exception as ex:
            raise Violation(sub, 'log record cannot be rendered: %r' % (ex,),
                            case)
        name = {'plain': 'PlainError', 'args': 'NeedsArgs',
                'chained': 'PlainError', 'retb': 'PlainError',
                'base': 'Interrupt', 'group': 'ExceptionGroup',
                'basegroup': 'BaseExceptionGroup',
                'falsy': 'EmptyAggregate'}[case['kind']]
        if name not in text:
            raise Violation(sub, 'log text does not mention the dropped %s: '
                            '%s' % (name, text[:200]), case)


# --------------------------------------------------------------------------
# exception_filter

STYLES = ('func', 'method', 'classmethod', 'staticmethod', 'partial',
          'method_twins', 'method_copy')
USES = ('with', 'with_in_handler', 'call_active', 'call_after_inner',
        'call_other_active', 'call_outside')
PRED_RESULTS = (
    ['accept', 'own'], ['accept', 'other'], ['accept', 'all'],
    ['accept', 'none'],
    ['const', 'one'], ['const', 'str'], ['const', 'list'], ['const', 'obj'],
    ['const', 'zero'], ['const', 'empty'], ['const', 'None'],
    ['const', 'emptylist'],
    ['raise'],
)
_CONST = {'one': 1, 'str': 'yes', 'list': [0], 'zero': 0, 'empty': '',
          'None': None, 'emptylist': []}
_KIND_CLASS = {'plain': PlainError, 'args': NeedsArgs, 'chained': PlainError,
               'retb': PlainError, 'base': Interrupt,
               'group': ExceptionGroup, 'basegroup': BaseExceptionGroup,
               'falsy': EmptyAggregate}


def _pred_truth(spec, kind):
    if spec[0] == 'raise':
        return 'raise'
    if spec[0] == 'accept':
        return {'own': True, 'other': False, 'all': True,
                'none': False}[spec[1]]
    if spec[1] == 'obj':
        return True
    return bool(_CONST[spec[1]])


def _build_filter(excutils, style, spec, kind, rec):
    def decide(ex):
        rec['calls'].append(ex)
        if spec[0] == 'raise':
            t = Translated('from the predicate')
            rec['translated'] = t
            raise t
        if spec[0] == 'accept':
            classes = {'own': (_KIND_CLASS[kind],), 'other': (OtherError,),
                       'all': (BaseException,), 'none': ()}[spec[1]]
            return isinstance(ex, classes)
        if spec[1] == 'obj':
            return object()
        return _CONST[spec[1]]

    if style == 'func':
        @excutils.exception_filter
        def flt(ex):
            '''doc F'''
            return decide(ex)
        return flt
    if style == 'partial':
        def two(tag, ex):
            return decide(ex)
        return excutils.exception_filter(functools.partial(two, 'tag'))
    if style == 'method':
        class Ignorer:
            @excutils.exception_filter
            def flt(self, ex):
                '''doc M'''
                rec['selfs'].append(self)
                return decide(ex)
        inst = Ignorer()
        rec['inst'] = inst
        return inst.flt
    def decide_quiet(ex):
        # the same decision without recording (used by decoy filters)
        if spec[0] == 'accept':
            classes = {'own': (_KIND_CLASS[kind],), 'other': (OtherError,),
                       'all': (BaseException,), 'none': ()}[spec[1]]
            return isinstance(ex, classes)
        if spec[0] == 'raise':
            return False
        return bool(object() if spec[1] == 'obj' else _CONST[spec[1]])

    if style == 'method_twins':
        # two filters of one class built by one factory: both underlying
        # functions are called 'flt'; the decoy (used first on the same
        # instance) decides the opposite of the real one
        def make(real):
            def flt(self, ex):
                if not real:
                    return not decide_quiet(ex)
                rec['selfs'].append(self)
                return decide(ex)
            return excutils.exception_filter(flt)

        class Twins:
            first = make(False)
            second = make(True)
        inst = Twins()
        rec['inst'] = inst
        with inst.first:
            pass
        return inst.second
    if style == 'method_copy':
        # the predicate consults instance state; the instance is used once,
        # then copied and the copy (with different state) is what is judged
        import copy

        class Stateful:
            real = False

            @excutils.exception_filter
            def flt(self, ex):
                if not self.real:
                    return not decide_quiet(ex)
                rec['selfs'].append(self)
                return decide(ex)
        first = Stateful()
        with first.flt:
            pass
        inst = copy.copy(first)
        inst.real = True
        rec['inst'] = inst
        return inst.flt
    if style == 'classmethod':
        class IgnorerC:
            @excutils.exception_filter
            @classmethod
            def flt(cls, ex):
                '''doc C'''
                rec['selfs'].append(cls)
                return decide(ex)
        rec['inst'] = IgnorerC
        return IgnorerC.flt
    if style == 'staticmethod':
        class IgnorerS:
            @excutils.exception_filter
            @staticmethod
            def flt(ex):
                '''doc S'''
                return decide(ex)
        return IgnorerS().flt
    raise core.HarnessError('style %r' % (style,))


def _reference_chain(kind):
    try:
        _l1(kind)
    except BaseException as e:
        if not _ours(e):
            raise
        return chain(e.__traceback__)[1:]


def _use_with(flt, kind, box):
    with flt:
        _l1(kind)
    box.append('completed')


def _use_with_in_handler(flt, kind, box):
    try:
        raise OtherError('being handled')
    except OtherError:
        with flt:
            _l1(kind)
        box.append('completed')


def _use_call(flt, kind, box, use):
    if use == 'call_outside':
        saved = None
        try:
            _l1(kind)
        except BaseException as ex:
            if not _ours(ex):
                raise
            saved = ex
        box.append(saved)
        flt(saved)
        box.append('completed')
        return
    try:
        _l1(kind)
    except BaseException as ex:
        if not _ours(ex):
            raise
        box.append(ex)
        if use == 'call_active':
            flt(ex)
        elif use == 'call_after_inner':
            try:
                raise InnerError('in between')
            except InnerError:
                pass
            flt(ex)
        elif use == 'call_other_active':
            try:
                raise OtherError('other')
            except OtherError:
                flt(ex)
        box.append('completed')


def filter_case(col, case, sub='filter'):
    from oslo_utils import excutils
    style, use, kind, spec = (case['style'], case['use'], case['kind'],
                              case['pred'])
    rec = {'calls': [], 'selfs': []}
    flt = _build_filter(excutils, style, spec, kind, rec)
    truth = _pred_truth(spec, kind)
    ref = _reference_chain(kind)
    box = []
    raised = None
    try:
        if use == 'with':
            _use_with(flt, kind, box)
        elif use == 'with_in_handler':
            _use_with_in_handler(flt, kind, box)
        else:
            _use_call(flt, kind, box, use)
    except BaseException as e:
        if not _ours(e):
            raise
        raised = e
    orig = box[0] if box and box[0] != 'completed' else None

    def bad(msg):
        raise Violation(sub, '%s/%s/%s/%s: %s' % (style, use, kind, spec, msg),
                        case)

    if len(rec['calls']) != 1:
        bad('predicate called %d times' % len(rec['calls']))
    arg = rec['calls'][0]
    if orig is not None and arg is not orig:
        bad('predicate received %r, not the exception object' % (arg,))
    if not isinstance(arg, _KIND_CLASS[kind]):
        bad('predicate received %r' % (arg,))
    if style in ('method', 'classmethod', 'method_twins', 'method_copy') and \
            (len(rec['selfs']) != 1 or rec['selfs'][0] is not rec['inst']):
        bad('bound filter called with %r' % (rec['selfs'],))
    if truth == 'raise':
        if raised is not rec.get('translated'):
            bad('predicate raised, but %r propagated' % (raised,))
        return
    if truth:
        if raised is not None:
            bad('predicate accepted, but %r propagated' % (raised,))
        if 'completed' not in box:
            bad('control flow did not continue after the filter')
        return
    if raised is None:
        bad('predicate refused, but the exception was suppressed')
    if raised is not arg:
        bad('predicate refused, but %r propagated instead of the same '
            'object %r' % (raised, arg))
    seen = chain(raised.__traceback__)
    if use in ('with', 'with_in_handler', 'call_active'):
        if seen[-len(ref):] != ref:
            bad('traceback of the original raise %s is not the tail of %s'
                % (_short(ref), _short(seen)))
    elif col is not None:
        col.unspec(sub, 'traceback after an intervening exception / outside '
                   'a handler')


def filter_noexc(col, style, sub='filter'):
    from oslo_utils import excutils
    for spec in (['accept', 'all'], ['raise'], ['const', 'zero']):
        rec = {'calls': [], 'selfs': []}
        flt = _build_filter(excutils, style, spec, 'plain', rec)
        case = {'style': style, 'use': 'with_noexc', 'kind': 'plain',
                'pred': spec}
        done = []
        try:
            with flt as got:
                done.append(got)
            done.append('after')
        except BaseException as e:
            if not _ours(e):
                raise
            raise Violation(sub, 'with-block without an exception raised %r'
                            % (e,), case)
        if rec['calls']:
            raise Violation(sub, 'predicate called without an exception',
                            case)
        if len(done) != 2:
            raise Violation(sub, 'with-block did not run', case)
        col.case(sub, repr(case), style != 'func', 'noexc', case)


def filter_table(col):
    sub = 'filter'
    for style in STYLES:
        filter_noexc(col, style)
        for use in USES:
            for kind in KINDS:
                for spec in PRED_RESULTS:
                    case = {'style': style, 'use': use, 'kind': kind,
                            'pred': list(spec)}
                    filter_case(col, case, sub)
                    nt = kind in ('args', 'base') or spec[0] != 'accept' or \
                        style != 'func' or use not in ('with', 'call_active')
                    col.case(sub, repr(case), nt,
                             ['style=' + style, 'use=' + use,
                              'truth=%s' % (_pred_truth(spec, kind),)], case)
    col.exhaustive[sub] = True


# --------------------------------------------------------------------------
# remove_path_on_error

# symlinks: the path itself is what gets removed, whatever it points at
PATH_STATES = ('file', 'missing', 'dir', 'link_dangling', 'link_to_file',
               'link_to_dir', 'via_link_dotdot')
REMOVERS = ('default', 'recorder', 'recorder_noop', 'recorder_raise_catch')
BODIES = ('returns',) + KINDS


def _rpoe_body(fileutils, path, kw, body, events):
    with fileutils.remove_path_on_error(path, **kw):
        events.append('body')
        if body != 'returns':
            _l1(body)
    events.append('after')


def rpoe_case(col, case, scratch, sub='remove_path'):
    from oslo_utils import fileutils
    state, remover, body = case['state'], case['remover'], case['body']
    path = os.path.join(scratch, 'p-%s-%s-%s' % (state, remover, body))
    bystander = None
    if state == 'via_link_dotdot':
        # <top>/current/../name where current is a symlink to a directory at
        # another depth: the kernel resolves '..' after following the link
        # (the file lives in <volumes>), lexical normalisation would name
        # <top>/name - a bystander that must survive
        root = os.path.join(scratch, 'v-%s-%s' % (remover, body))
        shutil.rmtree(root, ignore_errors=True)
        os.makedirs(os.path.join(root, 'volumes', 'pool'))
        os.makedirs(os.path.join(root, 'top'))
        os.symlink(os.path.join(root, 'volumes', 'pool'),
                   os.path.join(root, 'top', 'current'))
        path = os.path.join(root, 'top', 'current', '..', 'image.part')
        bystander = os.path.join(root, 'top', 'image.part')
        with open(bystander, 'w') as f:
            f.write('bystander')
        with open(path, 'w') as f:
            f.write('x')
    elif os.path.isdir(path):
        os.rmdir(path)
    elif os.path.lexists(path):
        os.unlink(path)
    if state == 'file':
        with open(path, 'w') as f:
            f.write('x')
    elif state == 'dir':
        os.mkdir(path)
    elif state.startswith('link_'):
        target = path + '.target'
        if os.path.isdir(target):
            os.rmdir(target)
        elif os.path.lexists(target):
            os.unlink(target)
        if state == 'link_to_file':
            with open(target, 'w') as f:
                f.write('t')
        elif state == 'link_to_dir':
            os.mkdir(target)
        os.symlink(target, path)
    events = []

    def physically_remove(p):
        if os.path.islink(p):
            os.unlink(p)
        elif os.path.isdir(p):
            os.rmdir(p)
        elif os.path.lexists(p):
            os.unlink(p)

    def recorder(p):
        events.append(('remove', p, sys.exc_info()[1]))
        if remover == 'recorder_raise_catch':
            try:
                raise InnerError('inside remove')
            except InnerError:
                pass
        if remover != 'recorder_noop':
            physically_remove(p)

    kw = {}
    deletes = True
    if remover == 'default':
        if state == 'dir':
            # the default remover unlinks; a directory needs the documented
            # delete_if_exists(path, os.rmdir) form (see the unit test)
            kw['remove'] = lambda p: fileutils.delete_if_exists(p, os.rmdir)
    else:
        kw['remove'] = recorder
        deletes = remover != 'recorder_noop'
    ref = _reference_chain(body) if body != 'returns' else None
    raised = None
    try:
        _rpoe_body(fileutils, path, kw, body, events)
    except BaseException as e:
        if not _ours(e):
            raise
        raised = e
        events.append('caught')
    exists_after = os.path.lexists(path)
    try:
        physically_remove(path)
    except OSError:
        pass

    def bad(msg):
        raise Violation(sub, '%s/%s/%s: %s' % (state, remover, body, msg),
                        case)

    removes = [ev for ev in events if isinstance(ev, tuple)]
    if body == 'returns':
        if raised is not None:
            bad('body returned normally but %r was raised' % (raised,))
        if removes:
            bad('remove called although the body did not fail')
        if exists_after != (state != 'missing'):
            bad('path state changed although the body did not fail')
        if events != ['body', 'after']:
            bad('control flow %r' % (events,))
        return
    if raised is None:
        bad('the exception raised by the body was swallowed')
    if not isinstance(raised, _KIND_CLASS[body]) or \
            (removes and removes[0][2] is not None
             and raised is not removes[0][2]):
        bad('%r propagated instead of the original' % (raised,))
    if body in ('base', 'basegroup'):
        # BaseException that is not an Exception: removal is unspecified
        if col is not None:
            col.unspec(sub, 'BaseException outside Exception: removal not '
                       'fixed by the statement')
        return
    seen = chain(raised.__traceback__)
    if seen[-len(ref):] != ref:
        bad('traceback of the original raise %s is not the tail of %s'
            % (_short(ref), _short(seen)))
    if remover != 'default':
        if len(removes) != 1:
            bad('remove called %d times' % len(removes))
        if removes[0][1] != path:
            bad('remove called with %r' % (removes[0][1],))
        if events.index(removes[0]) > events.index('caught'):
            bad('remove ran after the exception had propagated')
    if deletes and exists_after:
        bad('path still exists after the failure')
    if state in ('link_to_file', 'link_to_dir') and \
            not os.path.lexists(path + '.target'):
        bad('the target of the symlink was removed, not the path')
    if bystander is not None and not os.path.lexists(bystander):
        bad('another file (%r) was removed instead of the path'
            % (bystander,))
    if not deletes and exists_after != (state != 'missing'):
        bad('path state changed by a no-op remover')


def rpoe_table(col):
    sub = 'remove_path'
    base = '/dev/shm' if os.path.isdir('/dev/shm') and \
        os.access('/dev/shm', os.W_OK) else None
    scratch = tempfile.mkdtemp(prefix='vcheck-c09-', dir=base)
    root = logging.getLogger()
    h = _Count()
    root.addHandler(h)
    try:
        for state in PATH_STATES:
            for remover in REMOVERS:
                for body in BODIES:
                    case = {'state': state, 'remover': remover, 'body': body}
                    rpoe_case(col, case, scratch, sub)
                    col.case(sub, repr(case), body in ('args', 'base') or
                             remover == 'recorder_raise_catch' or
                             state != 'file',
                             ['state=' + state, 'remover=' + remover,
                              'body=' + ('returns' if body == 'returns'
                                         else 'raises')], case)
        errs = [r for r in h.records if r.levelno >= logging.ERROR]
        if errs:
            raise Violation(sub, 'remove_path_on_error logged %d error(s) '
                            'although remove never failed' % len(errs),
                            {'state': 'file', 'remover': 'default',
                             'body': 'plain'})
    finally:
        root.removeHandler(h)
        shutil.rmtree(scratch, ignore_errors=True)
    col.exhaustive[sub] = True


# --------------------------------------------------------------------------
# raise_with_cause

class KeepsCause(Exception):
    """takes a cause keyword like the docstring asks for, not derived from
    CausedByException"""

    def __init__(self, message, *args, **kwargs):
        self.cause = kwargs.pop('cause', 'ABSENT')
        self.extra_args = args
        self.extra_kwargs = kwargs
        super().__init__(message)


PLACES = ('outside', 'inside', 'inside_after_inner', 'inside_nested')
CAUSES = ('absent', 'explicit', 'explicit_none')
RWC_CLASSES = ('caused_by', 'caused_by_sub', 'keeps')


def rwc_case(col, case, sub='raise_with_cause'):
    from oslo_utils import excutils

    class Sub(excutils.CausedByException):
        pass

    cls = {'caused_by': excutils.CausedByException, 'caused_by_sub': Sub,
           'keeps': KeepsCause}[case['cls']]
    place, cmode, kind = case['place'], case['cause'], case['kind']
    explicit = CauseError('explicit cause')
    kw = {}
    if cmode == 'explicit':
        kw['cause'] = explicit
    elif cmode == 'explicit_none':
        kw['cause'] = None
    args = ()
    if case['cls'] == 'keeps':
        args = (1, 'two')
        kw['flavour'] = 'x'
    active = []

    def call():
        excutils.raise_with_cause(cls, 'the message', *args, **kw)

    raised = None
    try:
        if place == 'outside':
            call()
        else:
            try:
                _l1(kind)
            except BaseException as e:
                if not _ours(e):
                    raise
                active.append(e)
                if place == 'inside':
                    call()
                elif place == 'inside_after_inner':
                    try:
                        raise InnerError('between')
                    except InnerError:
                        pass
                    call()
                else:
                    try:
                        raise OtherError('the innermost active one')
                    except OtherError as o:
                        active.append(o)
                        call()
    except BaseException as e:
        if not _ours(e):
            raise
        raised = e

    def bad(msg):
        raise Violation(sub, '%s/%s/%s/%s: %s' % (case['cls'], place, cmode,
                                                  kind, msg), case)

    if raised is None:
        bad('nothing raised')
    if type(raised) is not cls:
        bad('raised %r, not an instance of the requested class' % (raised,))
    if raised.args[:1] != ('the message',):
        bad('message is %r' % (raised.args,))
    if cmode == 'explicit':
        want = explicit
    elif cmode == 'explicit_none':
        want = None
    else:
        want = active[-1] if active else None
    if raised.__cause__ is not want:
        bad('__cause__ is %r, expected %r' % (raised.__cause__, want))
    got_attr = getattr(raised, 'cause', 'MISSING')
    if cmode == 'absent' and not active:
        if case['cls'] == 'keeps':
            if got_attr != 'ABSENT':
                bad('a cause keyword (%r) was invented outside a handler'
                    % (got_attr,))
        elif got_attr is not None:
            bad('.cause is %r outside a handler' % (got_attr,))
    elif got_attr is not want:
        bad('.cause is %r, expected %r' % (got_attr, want))
    if case['cls'] == 'keeps':
        if raised.extra_args != args or \
                raised.extra_kwargs != {'flavour': 'x'}:
            bad('constructor received %r %r' % (raised.extra_args,
                                                raised.extra_kwargs))


def rwc_table(col):
    sub = 'raise_with_cause'
    for cname in RWC_CLASSES:
        for place in PLACES:
            for cmode in CAUSES:
                for kind in (KINDS if place != 'outside' else (None,)):
                    case = {'cls': cname, 'place': place, 'cause': cmode,
                            'kind': kind}
                    rwc_case(col, case, sub)
                    col.case(sub, repr(case), place != 'outside' and
                             (kind in ('args', 'base') or cmode != 'absent'
                              or place != 'inside'),
                             ['place=' + place, 'cause=' + cmode], case)
    col.exhaustive[sub] = True


# --------------------------------------------------------------------------

def tasks(tier, seed):
    out = [Task('sare/probe', probe_known),
           Task('sare/direct', direct_calls),
           Task('sare/default_logger', default_logger),
           Task('filter', filter_table),
           Task('remove_path', rpoe_table),
           Task('raise_with_cause', rwc_table)]
    if tier == 'quick':
        full, rot, depth, shards, hshards, examples = 3, 4, 3, 8, 6, 1200
        stride = 1
    else:
        full, rot, depth, shards, hshards, examples = 4, 5, 4, 32, 16, 12000
        stride = 2      # the seed picks which half of the 5-node bodies
    for s in range(hshards):
        out.append(Task('sare/random', hyp_programs,
                        seed=core.derive_seed(seed, ID, 'random', s),
                        max_examples=examples))
    for s in range(shards):
        out.append(Task('sare/enum', enum_programs,
                        sizes=tuple(range(0, full + 1)), depth=depth,
                        shard=s, nshards=shards, full=True))
    out.append(Task('sare/reuse', reuse_programs,
                    sizes=(0, 1, 2) if tier == 'quick' else (0, 1, 2, 3),
                    depth=depth))
    for s in range(shards):
        out.append(Task('sare/enum-rotating', enum_programs, sizes=(rot,),
                        depth=depth, shard=s, nshards=shards, full=False,
                        stride=stride, offset=int(seed) % stride))
    return out


def replay(rec):
    case = rec['case']
    sub = rec.get('sub', 'replay')
    col = core.Collector()
    if 'body' in case:
        run_program(case, sub)
    elif 'direct' in case:
        from oslo_utils import excutils
        _direct_case(excutils, case, sub)
    elif 'default_logger' in case:
        from oslo_utils import excutils
        root = logging.getLogger()
        h = _Count()
        saved_level = root.level
        root.addHandler(h)
        root.setLevel(logging.DEBUG)
        try:
            _default_logger_case(excutils, h, case, sub)
        finally:
            root.removeHandler(h)
            root.setLevel(saved_level)
    elif 'style' in case:
        if case['use'] == 'with_noexc':
            filter_noexc(col, case['style'], sub)
        else:
            filter_case(col, case, sub)
    elif 'remover' in case:
        base = '/dev/shm' if os.path.isdir('/dev/shm') and \
            os.access('/dev/shm', os.W_OK) else None
        scratch = tempfile.mkdtemp(prefix='vcheck-c09-', dir=base)
        try:
            rpoe_case(col, case, scratch, sub)
        finally:
            shutil.rmtree(scratch, ignore_errors=True)
    elif 'place' in case:
        rwc_case(col, case, sub)
    else:
        raise core.HarnessError('cannot replay %r' % (case,))
