"""C18 - the spec matcher implements its documented operator table.

Reference table (written from the make_grammar docstring and the property
statement) evaluated with exact arithmetic, against specs_matcher.match on
specs generated *inside* the documented grammar only: an operator followed by
the operands it documents, tokens separated by blanks, or a single
operator-less token.
"""

import functools
from fractions import Fraction

from vcheck import argtypes
from vcheck import core
from vcheck import hypmemo
from vcheck.core import Task, Violation

ID = 'C18'
LEVEL = 'exploration'
BUDGET = {'quick': 45, 'thorough': 420}
# deterministic sub-checks repeated in a `python -O` child (core.optimized_child)
OPT_SUBS = ('numeric/table', 'string/table', 'in/table', 'all-in/table', 'range-in/table')
# sub-checks repeated with str / int arguments as subclass instances
SUBCLASS_SUBS = ('numeric/table#2', 'string/table#2', 'in/table', 'all-in/table', 'range-in/table')
# documented call interface the generated calls rely on (vcheck/callstyle.py)
INTERFACE = [('oslo_utils.specs_matcher', None)]
RULE = ('specs are built from (operator, operands, blank layout): the 7 '
        'numeric operators over decimal operands (<= 12 significant digits, '
        'negatives, same value in another spelling, one unit in the last '
        'place apart), the 6 s-operators over strings (letters, digits, '
        'ASCII punctuation, a few non-ASCII letters; no whitespace; never '
        'starting with an operator literal) with values equal / a prefix / '
        'one code point apart, <in> with containing and nearly-containing '
        'values, <or> with 1..5 alternatives (hit on first/middle/last/none), '
        '<all-in> with 1..5 items against list literals (all present, one '
        'missing, substring of an element), <range-in> with all four bracket '
        'pairs, low <= high, value below/on/inside/on/above the ends, and '
        'operator-less single tokens; spaces/tabs between tokens and at both '
        'ends. Finite tables are enumerated completely per family, the rest '
        'is Hypothesis-generated. Oracle: exact rationals / code-point '
        'sequences / list membership. Non-trivial: operands equal or adjacent '
        '(boundary of the comparison), or a layout with extra whitespace; '
        'distinct by (value, spec).')
ASSUMPTIONS = [
    'only specs of the documented grammar are generated: no operand starting '
    'with an operator literal, no trailing tokens, low <= high, numeric '
    'operands for numeric operators, a list-of-strings literal as value for '
    '<all-in>, at least one blank between tokens',
    'decimal operands have <= 12 significant digits so float() comparison in '
    'the implementation is exact',
    'blanks are spaces and tabs only; operands contain no character for '
    'which str.isspace() is true',
]


NUM_OPS = ('=', '==', '!=', '<', '<=', '>', '>=')
STR_OPS = ('s==', 's!=', 's<', 's<=', 's>', 's>=')
OP_LITERALS = NUM_OPS + STR_OPS + ('<in>', '<all-in>', '<or>', '<range-in>')

LAYOUTS = (('', (' ',), ''), (' ', (' ',), ''), ('', ('  ',), ' '),
           ('\t', ('\t',), '\t'), ('', (' \t ', ' '), ''),
           ('  ', (' ', '\t', '  '), ' \t'))

ALPHABET = ''.join(chr(c) for c in range(33, 127)) + \
    'éßжΩ中\U0001d4b3'


def atom_ok(s):
    return (s != '' and not any(c.isspace() for c in s) and
            not s.startswith(OP_LITERALS))


def render(case):
    op, args = case['op'], list(case['args'])
    if op is None:
        return args[0]
    if op == '<or>':
        toks = []
        for a in args:
            toks += ['<or>', a]
    else:
        toks = [op] + args
    seps = list(case.get('seps') or [' '])
    out = case.get('lead', '') + toks[0]
    for i, t in enumerate(toks[1:]):
        out += seps[i % len(seps)] + t
    return out + case.get('trail', '')


def _contains(hay, needle):
    n = len(needle)
    return any(hay[i:i + n] == needle for i in range(len(hay) - n + 1))


def expected(case):
    """The documented meaning of the spec, from the case structure."""
    op, v, a = case['op'], case['value'], case['args']
    if op is None:
        return v == a[0]
    if op in NUM_OPS:
        x, y = Fraction(v), Fraction(a[0])
        return {'=': x >= y, '==': x == y, '!=': x != y, '<': x < y,
                '<=': x <= y, '>': x > y, '>=': x >= y}[op]
    if op in STR_OPS:
        x, y = [ord(c) for c in v], [ord(c) for c in a[0]]
        return {'s==': x == y, 's!=': x != y, 's<': x < y, 's<=': x <= y,
                's>': x > y, 's>=': x >= y}[op]
    if op == '<in>':
        return _contains(v, a[0])
    if op == '<or>':
        return any(v == alt for alt in a)
    if op == '<all-in>':
        have = list(case['value_items'])
        return all(any(item == h for h in have) for item in a)
    if op == '<range-in>':
        lb, low, high, rb = a
        x, lo, hi = Fraction(v), Fraction(low), Fraction(high)
        lower = x >= lo if lb == '[' else x > lo
        upper = x <= hi if rb == ']' else x < hi
        return lower and upper
    raise core.HarnessError('unknown operator %r' % (op,))


def validate(case):
    """Harness guard: the case must lie inside the documented grammar."""
    op, a = case['op'], case['args']
    ok = all(isinstance(x, str) and atom_ok(x) for x in a) and len(a) >= 1
    if op is None or op in NUM_OPS or op in STR_OPS or op == '<in>':
        ok = ok and len(a) == 1
    if op == '<range-in>':
        ok = ok and len(a) == 4 and a[0] in '[(' and a[3] in '])' and \
            Fraction(a[1]) <= Fraction(a[2])
    if op == '<all-in>':
        ok = ok and case['value'] == repr(list(case['value_items']))
    if op is not None:
        ok = ok and all(s != '' and set(s) <= set(' \t')
                        for s in (case.get('seps') or [' ']))
        ok = ok and set(case.get('lead', '') + case.get('trail', '')) <= \
            set(' \t')
    if not ok:
        raise core.HarnessError('generated case outside the grammar: %r'
                                % (case,))


def check(sm, case, sub):
    validate(case)
    spec = render(case)
    want = expected(case)
    try:
        got = sm.match(argtypes.maybe(case['value']), argtypes.maybe(spec))
    except Exception as e:
        raise Violation(sub, 'match(%r, %r) raised %s: %s, expected %r'
                        % (case['value'], spec, type(e).__name__, e, want),
                        case)
    if got is not want:
        raise Violation(sub, 'match(%r, %r) -> %r, documented meaning %r'
                        % (case['value'], spec, got, want), case)
    return spec, want


def _extra_ws(case):
    if case['op'] is None:
        return False
    return bool(case.get('lead') or case.get('trail') or
                any(s != ' ' for s in (case.get('seps') or [' '])))


def _record(col, sub, case, spec, want, boundary, cls):
    cls = list(cls) + ['result=%s' % want]
    if _extra_ws(case):
        cls.append('extra-ws')
    col.case(sub, (case['value'], spec), boundary or _extra_ws(case), cls,
             {'value': case['value'], 'spec': spec, 'want': want})


def _with_layout(case, k):
    lead, seps, trail = LAYOUTS[k % len(LAYOUTS)]
    case.update(lead=lead, seps=list(seps), trail=trail)
    return case


# --------------------------------------------------------------------------
# numbers

def fmt(n, places):
    """n / 10**places as a plain decimal string with `places` decimals."""
    sign = '-' if n < 0 else ''
    n = abs(n)
    if places == 0:
        return sign + str(n)
    q, r = divmod(n, 10 ** places)
    return '%s%d.%0*d' % (sign, q, places, r)


NUMBERS = ('0', '1', '-1', '2', '9.99', '10', '10.0', '10.01', '-0.5', '0.5',
           '99.9999999999', '100', '100.000000001', '-100', '123456789012')


def numeric_table(col, ops=NUM_OPS):
    from oslo_utils import specs_matcher as sm
    sub = 'numeric/table'
    k = 0
    for op in ops:
        for v in NUMBERS:
            for y in NUMBERS:
                case = _with_layout({'op': op, 'value': v, 'args': [y]}, k)
                k += 1
                spec, want = check(sm, case, sub)
                eq = Fraction(v) == Fraction(y)
                _record(col, sub, case, spec, want, eq,
                        [op, 'equal' if eq else 'apart'])
    col.exhaustive[sub] = True


@functools.lru_cache(maxsize=None)
def _st_layout(st):
    return st.tuples(
        st.sampled_from(['', '', ' ', '\t', '  ']),
        st.lists(st.sampled_from([' ', ' ', '  ', '\t', ' \t ']), min_size=1,
                 max_size=3),
        st.sampled_from(['', '', ' ', '\t', ' \t']))


@functools.lru_cache(maxsize=None)
def _st_number(st):
    """(n, places): the decimal n / 10**places, <= 12 significant digits."""
    n = st.one_of(st.sampled_from([0, 1, -1, 9, 10, 99, 100, 999, 1000]),
                  st.integers(-10 ** 5, 10 ** 5))
    return st.tuples(n, st.integers(0, 4))


def _layout_kw(lay):
    return {'lead': lay[0], 'seps': list(lay[1]), 'trail': lay[2]}


def numeric_random(col, seed, max_examples):
    st = hypmemo.strategies()
    from oslo_utils import specs_matcher as sm
    sub = 'numeric/random'

    @st.composite
    def cases(draw):
        n, p = draw(_st_number(st))
        kind = draw(st.sampled_from(['same', 'respelt', 'ulp', 'ulp',
                                     'random']))
        if kind == 'same':
            m, q = n, p
        elif kind == 'respelt':
            extra = draw(st.integers(1, 2))
            m, q = n * 10 ** extra, p + extra
        elif kind == 'ulp':
            m, q = n + draw(st.sampled_from([-1, 1])), p
        else:
            m, q = draw(_st_number(st))
        a, b = fmt(n, p), fmt(m, q)
        if draw(st.booleans()):
            a, b = b, a
        case = {'op': draw(st.sampled_from(NUM_OPS)), 'value': a,
                'args': [b], 'pair': kind}
        case.update(_layout_kw(draw(_st_layout(st))))
        return case

    def oracle(col, case):
        spec, want = check(sm, case, sub)
        eq = Fraction(case['value']) == Fraction(case['args'][0])
        _record(col, sub, case, spec, want, case['pair'] != 'random',
                [case['op'], 'pair=' + case['pair'],
                 'equal' if eq else 'apart'])

    hypmemo.search(col, cases(), oracle, seed, max_examples)


# --------------------------------------------------------------------------
# strings

STRINGS = ('a', 'b', 'ab', 'A', 'Z', 'abc', 'abd', 'a1', '10', '9', '2.1.0',
           '~', 'é', 'x=y')


def string_table(col, ops=STR_OPS):
    from oslo_utils import specs_matcher as sm
    sub = 'string/table'
    k = 0
    for op in ops:
        for v in STRINGS + ('', 'a b', '=', 's=='):
            for y in STRINGS:
                case = _with_layout({'op': op, 'value': v, 'args': [y]}, k)
                k += 1
                spec, want = check(sm, case, sub)
                near = v == y or v.startswith(y) or y.startswith(v)
                _record(col, sub, case, spec, want, near,
                        [op, 'equal' if v == y else
                         'prefix' if near else 'apart'])
    col.exhaustive[sub] = True


@functools.lru_cache(maxsize=None)
def _st_atom(st, max_size=6):
    return st.text(ALPHABET, min_size=1, max_size=max_size).filter(atom_ok)


def _st_near(st, draw, atom):
    """A value close to `atom` (values are not parsed: any string)."""
    kind = draw(st.sampled_from(['equal', 'longer', 'shorter', 'last+1',
                                 'last-1', 'case', 'random']))
    if kind == 'equal':
        return kind, atom
    if kind == 'longer':
        return kind, atom + draw(st.sampled_from(['a', '0', ' ', '!', '~']))
    if kind == 'shorter':
        return kind, atom[:-1]
    if kind in ('last+1', 'last-1'):
        c = ord(atom[-1]) + (1 if kind == 'last+1' else -1)
        if 0xd800 <= c <= 0xdfff or c > 0x10ffff:
            c = ord('a')
        return kind, atom[:-1] + chr(c)
    if kind == 'case':
        return kind, atom.swapcase()
    return kind, draw(st.text(ALPHABET + ' ', max_size=8))


def string_random(col, seed, max_examples):
    st = hypmemo.strategies()
    from oslo_utils import specs_matcher as sm
    sub = 'string/random'

    @st.composite
    def cases(draw):
        atom = draw(_st_atom(st))
        kind, value = _st_near(st, draw, atom)
        case = {'op': draw(st.sampled_from(STR_OPS)), 'value': value,
                'args': [atom], 'pair': kind}
        case.update(_layout_kw(draw(_st_layout(st))))
        return case

    def oracle(col, case):
        spec, want = check(sm, case, sub)
        _record(col, sub, case, spec, want, case['pair'] != 'random',
                [case['op'], 'pair=' + case['pair']])

    hypmemo.search(col, cases(), oracle, seed, max_examples)


# --------------------------------------------------------------------------
# <in>, <or>, <all-in>, operator-less

def in_or_plain_table(col):
    from oslo_utils import specs_matcher as sm
    k = 0
    sub = 'in/table'
    for needle in ('gcc', 'a', '12', 'a.b', '[x]', 'in>'):
        for hay in (needle, 'x' + needle, needle + 'x', 'x' + needle + 'y',
                    needle[:-1], needle[1:], needle.upper(), '',
                    needle[:-1] + ' ' + needle[-1:], 'gcc 4.8 ' + needle,
                    needle[::-1] + '-'):
            case = _with_layout({'op': '<in>', 'value': hay,
                                 'args': [needle]}, k)
            k += 1
            spec, want = check(sm, case, sub)
            _record(col, sub, case, spec, want, True,
                    ['contained' if want else 'not-contained'])
    col.exhaustive[sub] = True

    sub = 'or/table'
    words = ('spam', 'eggs', '12', '12.0', 'Spam', 'x=y', 'or>')
    for n in range(1, 6):
        alts = list(words[:n])
        for v in alts + ['spa', 'spam ', 'eggs2', '', '<or>', 'spam <or> eggs',
                         words[n] if n < len(words) else 'zzz']:
            case = _with_layout({'op': '<or>', 'value': v, 'args': alts}, k)
            k += 1
            spec, want = check(sm, case, sub)
            cls = ['n=%d' % n]
            if want:
                i = alts.index(v)
                cls.append('hit-last' if i == n - 1 else
                           'hit-first' if i == 0 else 'hit-middle')
            else:
                cls.append('miss')
            _record(col, sub, case, spec, want, True, cls)
    col.exhaustive[sub] = True

    sub = 'plain/table'
    for spec_tok in ('abc', '2.1.0', '12', 'a=b', 'x<y', 'sparse', 'true',
                     '[', 'A', 'é', '-5', 'in>', 'a,b'):
        for v in (spec_tok, spec_tok + ' ', ' ' + spec_tok, spec_tok + 'x',
                  spec_tok[:-1], spec_tok.swapcase(), '', spec_tok + '.0'):
            case = {'op': None, 'value': v, 'args': [spec_tok]}
            spec, want = check(sm, case, sub)
            _record(col, sub, case, spec, want, True,
                    ['equal' if want else 'near'])
    col.exhaustive[sub] = True


def in_or_plain_random(col, seed, max_examples):
    st = hypmemo.strategies()
    from oslo_utils import specs_matcher as sm

    @st.composite
    def cases(draw):
        fam = draw(st.sampled_from(['in', 'in', 'or', 'or', 'plain',
                                    'plain']))
        lay = _layout_kw(draw(_st_layout(st)))
        if fam == 'in':
            needle = draw(_st_atom(st, 4))
            kind = draw(st.sampled_from(['inside', 'inside', 'near',
                                         'random']))
            filler = st.text(ALPHABET + ' ', max_size=4)
            if kind == 'inside':
                v = draw(filler) + needle + draw(filler)
            elif kind == 'near':
                v = draw(filler) + needle[:-1] + \
                    draw(st.sampled_from(['', ' ', 'x'])) + needle[-1:] + \
                    draw(filler)
            else:
                v = draw(st.text(ALPHABET + ' ', max_size=8))
            case = {'op': '<in>', 'value': v, 'args': [needle], 'pair': kind}
        elif fam == 'or':
            alts = draw(st.lists(_st_atom(st, 4), min_size=1, max_size=5))
            i = draw(st.integers(0, len(alts) - 1))
            if draw(st.integers(0, 3)) == 0:
                i = len(alts) - 1
            kind, v = _st_near(st, draw, alts[i])
            case = {'op': '<or>', 'value': v, 'args': alts, 'pair': kind,
                    'aimed': i}
        else:
            tok = draw(_st_atom(st))
            kind, v = _st_near(st, draw, tok)
            case = {'op': None, 'value': v, 'args': [tok], 'pair': kind}
        if case['op'] is not None:
            case.update(lay)
        return case

    def oracle(col, case):
        fam = {None: 'plain', '<in>': 'in', '<or>': 'or'}[case['op']]
        sub = fam + '/random'
        spec, want = check(sm, case, sub)
        cls = ['pair=' + case['pair']]
        if fam == 'or':
            n = len(case['args'])
            cls.append('n=%d' % n)
            if want:
                i = max(j for j, a in enumerate(case['args'])
                        if a == case['value'])
                only_last = case['args'].count(case['value']) == 1 and \
                    i == n - 1
                cls.append('hit-last-only' if only_last else 'hit')
        _record(col, sub, case, spec, want, case['pair'] != 'random', cls)

    hypmemo.search(col, cases(), oracle, seed, max_examples)


def _all_in_case(items, have):
    return {'op': '<all-in>', 'args': list(items),
            'value_items': list(have), 'value': repr(list(have))}


def all_in_table(col):
    from oslo_utils import specs_matcher as sm
    sub = 'all-in/table'
    feats = ['aes', 'mmx', 'aux', 'sse4.2', 'x', "it's", 'a b', '']
    k = 0
    wanted_sets = (['aes'], ['aes', 'mmx'], ['mmx', 'aes'],
                   ['aes', 'mmx', 'aux'], ['aes', 'aes'],
                   ['aes', 'mmx', 'aux', 'sse4.2', 'x'], ['ae'], ['aesx'],
                   ['aes', 'nope'], ['nope', 'aes'], ['aes', 'mmx', 'nope'],
                   ['AES'], ["it's"], ['sse4.2', 'sse4'], ['e'])
    haves = (feats, feats[:3], feats[:1], feats[1:], [], ['mmx', 'aes'],
             ['aes', 'aes'], ['xaesx', 'mmx'], ['aes mmx'])
    for items in wanted_sets:
        for have in haves:
            case = _with_layout(_all_in_case(items, have), k)
            k += 1
            spec, want = check(sm, case, sub)
            missing = sum(1 for i in items if i not in have)
            _record(col, sub, case, spec, want, missing <= 1,
                    ['n=%d' % len(items), 'missing=%d' % min(missing, 2)])
    col.exhaustive[sub] = True


def all_in_random(col, seed, max_examples):
    st = hypmemo.strategies()
    from oslo_utils import specs_matcher as sm
    sub = 'all-in/random'

    @st.composite
    def cases(draw):
        items = draw(st.lists(_st_atom(st, 4), min_size=1, max_size=5))
        extras = draw(st.lists(st.text(ALPHABET + ' ', max_size=4),
                               max_size=3))
        kind = draw(st.sampled_from(['all', 'all', 'drop-one', 'mangle-one',
                                     'random']))
        have = list(items)
        if kind == 'drop-one':
            i = draw(st.integers(0, len(items) - 1))
            have = [h for h in have if h != items[i]]
        elif kind == 'mangle-one':
            i = draw(st.integers(0, len(items) - 1))
            m = draw(st.sampled_from(['x' + items[i], items[i] + 'x',
                                      items[i][:-1], items[i].swapcase()]))
            have = [m if h == items[i] else h for h in have]
        elif kind == 'random':
            have = []
        have = draw(st.permutations(have + extras))
        case = _all_in_case(items, have)
        case['pair'] = kind
        case.update(_layout_kw(draw(_st_layout(st))))
        return case

    def oracle(col, case):
        spec, want = check(sm, case, sub)
        missing = sum(1 for i in case['args']
                      if i not in case['value_items'])
        _record(col, sub, case, spec, want, missing <= 1,
                ['n=%d' % len(case['args']), 'pair=' + case['pair'],
                 'missing=%d' % min(missing, 2)])

    hypmemo.search(col, cases(), oracle, seed, max_examples)


# --------------------------------------------------------------------------
# <range-in>

BRACKETS = (('[', ']'), ('[', ')'), ('(', ']'), ('(', ')'))


def _positions(lo, hi, places):
    """Values below, on, inside, on, above [lo, hi] (integers scaled by
    10**places), one extra decimal for the midpoint."""
    out = [('below', lo * 10 - 1), ('on-low', lo * 10)]
    if hi > lo:
        out.append(('inside', lo * 10 + 1 if hi * 10 - lo * 10 < 4
                    else (lo * 10 + hi * 10) // 2))
    out += [('on-high', hi * 10), ('above', hi * 10 + 1)]
    return [(name, fmt(v, places + 1)) for name, v in out] + \
        [('on-low-int', fmt(lo, places)), ('on-high-int', fmt(hi, places))]


def range_table(col):
    from oslo_utils import specs_matcher as sm
    sub = 'range-in/table'
    ends = ((10, 20, 0), (10, 10, 0), (-5, 5, 0), (0, 0, 0), (15, 25, 1),
            (-20, -10, 0), (999, 1001, 3), (0, 1, 0), (99999, 100000, 2))
    k = 0
    for lo, hi, places in ends:
        for lb, rb in BRACKETS:
            for name, v in _positions(lo, hi, places):
                case = _with_layout(
                    {'op': '<range-in>', 'value': v,
                     'args': [lb, fmt(lo, places), fmt(hi, places), rb]}, k)
                k += 1
                spec, want = check(sm, case, sub)
                _record(col, sub, case, spec, want, True,
                        [lb + rb, name, 'degenerate' if lo == hi else
                         'proper'])
    col.exhaustive[sub] = True


def range_random(col, seed, max_examples):
    st = hypmemo.strategies()
    from oslo_utils import specs_matcher as sm
    sub = 'range-in/random'

    @st.composite
    def cases(draw):
        (n, p), (m, q) = draw(_st_number(st)), draw(_st_number(st))
        if draw(st.integers(0, 5)) == 0:
            m, q = n, p
        lo_f, hi_f = Fraction(n, 10 ** p), Fraction(m, 10 ** q)
        lo_s, hi_s = fmt(n, p), fmt(m, q)
        if lo_f > hi_f:
            lo_f, hi_f, lo_s, hi_s = hi_f, lo_f, hi_s, lo_s
        pos = draw(st.sampled_from(['below', 'on-low', 'inside', 'on-high',
                                    'above', 'random']))
        places = max(p, q) + 1
        unit = Fraction(1, 10 ** places)
        x = {'below': lo_f - unit, 'on-low': lo_f,
             'inside': (lo_f + hi_f) / 2 if (hi_f - lo_f) > 2 * unit
             else lo_f + unit if hi_f > lo_f else lo_f,
             'on-high': hi_f, 'above': hi_f + unit}.get(pos)
        if x is None:
            rn, rp = draw(_st_number(st))
            v = fmt(rn, rp)
        else:
            # render exactly with `places` (+1 for a midpoint) decimals
            scaled = x * 10 ** (places + 1)
            if scaled.denominator != 1:
                scaled = Fraction(int(scaled))
            v = fmt(int(scaled), places + 1)
            if draw(st.booleans()) and int(scaled) % 10 ** (places + 1) == 0:
                v = fmt(int(scaled) // 10 ** (places + 1), 0)
        lb, rb = draw(st.sampled_from(BRACKETS))
        case = {'op': '<range-in>', 'value': v,
                'args': [lb, lo_s, hi_s, rb], 'pair': pos}
        case.update(_layout_kw(draw(_st_layout(st))))
        return case

    def oracle(col, case):
        spec, want = check(sm, case, sub)
        a = case['args']
        x, lo, hi = Fraction(case['value']), Fraction(a[1]), Fraction(a[2])
        where = ('below' if x < lo else 'on-low=high' if x == lo == hi else
                 'on-low' if x == lo else 'inside' if x < hi else
                 'on-high' if x == hi else 'above')
        _record(col, sub, case, spec, want, where.startswith('on-') or
                case['pair'] != 'random', [a[0] + a[3], where])

    hypmemo.search(col, cases(), oracle, seed, max_examples)


# --------------------------------------------------------------------------

def tasks(tier, seed):
    q = tier == 'quick'
    # the (short) exhaustive tables first, then 16 long searches so that
    # every family starts at once and a tight budget cuts them all alike
    out = [Task('preempt', preempt)]
    out += [Task('numeric/table', numeric_table, ops=(op,)) for op in NUM_OPS]
    out += [Task('string/table', string_table, ops=(op,)) for op in STR_OPS]
    out += [Task('in/table', in_or_plain_table),
            Task('all-in/table', all_in_table),
            Task('range-in/table', range_table)]
    n = 600 if q else 10000
    fams = (('numeric/random', numeric_random, 3),
            ('string/random', string_random, 3),
            ('in/random', in_or_plain_random, 4),
            ('all-in/random', all_in_random, 3),
            ('range-in/random', range_random, 3))
    for i in range(4):
        for name, fn, shards in fams:
            if i < shards:
                out.append(Task(name, fn,
                                seed=core.derive_seed(seed, ID, name, i),
                                max_examples=n))
    return out


def preempt(col):
    """Schedules (core.preempt_calls): matches against each other under
    every single preemption inside specs_matcher; and the object handed out
    by make_grammar() belongs to the caller - customising it in place must
    not change what match() does afterwards."""
    from oslo_utils import specs_matcher as sm
    sub = 'preempt'
    T, F = ('value', True), ('value', False)
    calls = [
        ('match(12, <or> 11 <or> 12)',
         lambda: sm.match('12', '<or> 11 <or> 12'), T),
        ('match(3, <range-in> [ 1 5 ])',
         lambda: sm.match('3', '<range-in> [ 1 5 ]'), T),
        ('match(6, <range-in> [ 1 5 ])',
         lambda: sm.match('6', '<range-in> [ 1 5 ]'), F),
        ('match(abc, s== abc)', lambda: sm.match('abc', 's== abc'), T),
        ('match(5, >= 6)', lambda: sm.match('5', '>= 6'), F),
        ("match(['a', 'b'], <all-in> a b)",
         lambda: sm.match("['a', 'b']", '<all-in> a b'), T),
        ('match(abc, <in> bc)', lambda: sm.match('abc', '<in> bc'), T),
        ('match(x, x)', lambda: sm.match('x', 'x'), T),
        ('match(2, = 1)', lambda: sm.match('2', '= 1'), T),
        ('match(1, != 1)', lambda: sm.match('1', '!= 1'), F),
    ]
    core.preempt_calls(col, sub, ['oslo_utils.specs_matcher'], calls)
    # aliasing: scribble over a grammar obtained from make_grammar()
    import importlib
    importlib.reload(sm)
    for round_ in range(2):
        g = sm.make_grammar()
        try:
            g.setParseAction(lambda toks: ['scribbled'])
            g.leaveWhitespace()
        except Exception:
            pass
        for label, thunk, want in calls:
            try:
                got = ('value', thunk())
            except Exception as e:
                got = ('raise', type(e).__name__)
            col.case(sub, ('alias', round_, label), True, 'grammar-alias',
                     {'call': label})
            if got != want:
                raise Violation(sub, 'after customising the object returned '
                                'by make_grammar() in place: %s: %r, '
                                'expected %r' % (label, got, want),
                                {'call': label, 'preempt_calls': True})
    importlib.reload(sm)
    col.exhaustive.setdefault(sub, False)


def replay(rec):
    from oslo_utils import specs_matcher as sm
    if rec['case'].get('preempt_calls'):
        return preempt(core.Collector())
    check(sm, rec['case'], rec.get('sub', 'replay'))
