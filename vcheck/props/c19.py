"""C19 - path and list splitting honour their contracts for every input.

split_path: a reference model written from the property statement, compared
on the whole bounded family (segments over {plain, empty, dotted, spaced},
0..7 segments, every minsegs/maxsegs/rest_with_last combination) and on
Hypothesis-generated richer paths.

split_by_commas: (a) round trip split(join(quote(items))) == items for item
lists over printable ASCII, (b) a reference scanner written from the statement
compared on every string over a small alphabet {a , " \\ space} up to a length
bound, (c) malformed constructions (unbalanced / misplaced quotes, text after
a closing quote, empty unquoted items) must raise ValueError and nothing else.
"""

import collections
import itertools

from vcheck import argtypes
from vcheck import core
from vcheck.core import Task, Violation

ID = 'C19'
LEVEL = 'exploration'
BUDGET = {'quick': 75, 'thorough': 480}
# deterministic sub-checks repeated in a `python -O` child (core.optimized_child)
OPT_SUBS = ('commas/malformed', 'split_path/exhaustive')
# sub-checks repeated with str / int arguments as subclass instances
SUBCLASS_SUBS = ('commas/malformed#1', 'split_path/exhaustive#2')
# documented call interface the generated calls rely on (vcheck/callstyle.py)
INTERFACE = [('oslo_utils.strutils', ['split_path', 'split_by_commas'])]
# pairs of sampled cases are run against each other under every single
# preemption inside these modules (core.preempt_pair)
PREEMPT_MODULES = ['oslo_utils.strutils']
RULE = ('split_path: every path made of 0..K segments over {plain(position '
        'tagged), empty, dotted, spaced} with and without a leading slash '
        '(trailing slashes arise from trailing empty segments) x minsegs 1..4 '
        'x maxsegs {None, 0, min-1..min+2} x rest_with_last (K=7 quick, 8 '
        'thorough) is enumerated and compared with a reference model, plus '
        'Hypothesis paths with arbitrary Unicode segments and minsegs up to 6. '
        'Non-trivial: the path starts with "/" and has an empty non-final '
        'segment, a trailing slash, or a segment count within 1 of minsegs or '
        'of the effective maxsegs; distinct by argument tuple. '
        'split_by_commas: item lists of length 1..5 over printable ASCII '
        '(biased to , " \\ and space) joined with minimal or full quoting must '
        'split back to the items; every string over {a , " \\ space} up to '
        'length L (7 quick, 8 thorough) is compared with a reference scanner; '
        'malformed constructions must raise ValueError. Non-trivial: some '
        'item needs quotes / the text contains a quote or backslash or an '
        'empty item; distinct by text.')
ASSUMPTIONS = [
    'the reference split_path model and the reference comma scanner are '
    'written from the property statement (they share no code with strutils)',
    'maxsegs=0 (falsy spelling of "no maximum") is unspecified: ValueError or '
    'the answer for maxsegs=None are both accepted',
    'rest_with_last with maxsegs == minsegs and an empty minsegs-th segment '
    'followed by more text ("/a//r", 2, 2, True) is unspecified: ValueError '
    'or the remainder-in-last-entry answer are both accepted',
    'split_by_commas: unquoted spaces (pyparsing skips white space), unquoted '
    'backslashes and escapes of characters other than " and \\ inside quotes '
    'are unspecified: only "ValueError or a list of str" is asserted there',
    'inputs are str paths / str values and positive int minsegs; other types '
    'are outside the quantifier',
]

def run_given(col, strategy, oracle, seed, max_examples):
    """core.run_given, robust against the budget running out mid-shrink.

    When the deadline passes while Hypothesis shrinks, core's body returns
    without judging and Hypothesis reports the failure as flaky (an exception
    group, not a Violation).  The last Violation seen is recorded instead.
    """
    seen = []

    def wrapped(col, case):
        try:
            oracle(col, case)
        except Violation as v:
            seen.append(v)
            raise

    try:
        return core.run_given(col, strategy, wrapped, seed, max_examples)
    except Violation:
        raise
    except Exception:
        if not seen:
            raise
        v = min(seen[-5:], key=lambda x: len(repr(x.case)))
        col.fail(v)
        return v


# ---------------------------------------------------------------------------
# split_path
# ---------------------------------------------------------------------------

KINDS = ('plain', 'empty', 'dotted', 'spaced')


def render_segment(kind, i):
    if kind == 'plain':
        return 'p%d' % i
    if kind == 'empty':
        return ''
    if kind == 'dotted':
        return '..' if i % 2 else '.%d.' % i
    return 'a %d' % i


def model_split_path(path, minsegs, maxsegs, rwl):
    """Reference answer: ('ok', list) | ('err',) | ('unspec', why, allowed)."""
    if maxsegs is not None and maxsegs == 0:
        inner = _strict(path, minsegs, None, rwl)
        allowed = inner[2] if inner[0] == 'unspec' else [inner]
        return ('unspec', 'maxsegs=0', [('err',)] + list(allowed))
    return _strict(path, minsegs, maxsegs, rwl)


def _strict(path, minsegs, maxsegs, rwl):
    m = minsegs if maxsegs is None else maxsegs
    if minsegs > m:
        return ('err',)
    if not path.startswith('/'):
        return ('err',)
    body = path[1:]
    if rwl:
        # at most m entries; the m-th keeps the remainder, slashes included
        parts = body.split('/', m - 1)
        if len(parts) < minsegs or '' in parts[:minsegs]:
            return ('err',)
        ok = ('ok', parts + [None] * (m - len(parts)))
        if m == minsegs and parts[m - 1].startswith('/'):
            # the minsegs-th *segment* is empty but the entry is not
            return ('unspec', 'rest-entry-with-empty-head', [('err',), ok])
        return ok
    segs = body.split('/')
    if len(segs) == m + 1 and segs[-1] == '':
        segs = segs[:-1]            # a single trailing slash is tolerated
    elif len(segs) > m:
        return ('err',)
    if len(segs) < minsegs or '' in segs[:minsegs]:
        return ('err',)
    return ('ok', segs + [None] * (m - len(segs)))


def real_split_path(path, minsegs, maxsegs, rwl):
    from oslo_utils import strutils
    path = argtypes.maybe(path)
    try:
        r = strutils.split_path(path, minsegs, maxsegs, rwl)
    except ValueError:
        return ('err',)
    except Exception as e:
        return ('raised', type(e).__name__)
    if isinstance(r, list):
        # the caller owns the result: scribbling over it must not influence
        # what an identical later call returns
        snap = list(r)
        r.append('scribble')
        r[:1] = ['scribble']
        try:
            again = strutils.split_path(path, minsegs, maxsegs, rwl)
        except Exception as e:
            return ('raised', 'second identical call: %s' % type(e).__name__)
        if again != snap:
            return ('ok-then-differs', snap, again)
        return ('ok', snap)
    return ('ok', r)


def classify_path(path, minsegs, maxsegs, rwl, want):
    """(class label, nontrivial) for the histogram."""
    m = minsegs if not maxsegs else maxsegs
    nt = False
    if path.startswith('/'):
        segs = path[1:].split('/')
        n = len(segs)
        nt = ('' in segs[:-1] or (n > 1 and segs[-1] == '') or
              abs(n - minsegs) <= 1 or abs(n - m) <= 1)
    if want[0] == 'unspec':
        return 'unspec/' + want[1], nt
    if want[0] == 'err':
        if maxsegs and minsegs > maxsegs:
            return 'err/min>max', nt
        if not path.startswith('/'):
            return 'err/no-leading-slash', nt
        segs = path[1:].split('/')
        if len(segs) < minsegs:
            return 'err/too-few', nt
        if '' in segs[:minsegs]:
            return 'err/empty-required-segment', nt
        return 'err/too-many', nt
    res = want[1]
    segs = path[1:].split('/')
    if rwl and len(segs) > m:
        return 'ok/rest-in-last', nt
    if not rwl and len(segs) == m + 1:
        return 'ok/trailing-slash-dropped', nt
    if None in res:
        return 'ok/padded', nt
    return 'ok/exact', nt


def check_split_path(case, sub):
    path, minsegs, maxsegs, rwl = (case['path'], case['minsegs'],
                                   case['maxsegs'], case['rwl'])
    want = model_split_path(path, minsegs, maxsegs, rwl)
    got = real_split_path(path, minsegs, maxsegs, rwl)
    if got[0] == 'raised':
        raise Violation(sub, 'split_path(%r, %r, %r, %r) raised %s, only '
                        'ValueError is allowed' % (path, minsegs, maxsegs,
                                                   rwl, got[1]), case)
    if got[0] == 'ok-then-differs':
        raise Violation(sub, 'split_path(%r, %r, %r, %r) returned %r, and '
                        'after the caller modified that list an identical '
                        'call returned %r' % (path, minsegs, maxsegs, rwl,
                                              got[1], got[2]), case)
    if got[0] == 'ok':
        r = got[1]
        if not isinstance(r, list):
            raise Violation(sub, 'split_path returned %r, not a list' % (r,),
                            case)
    if want[0] == 'unspec':
        if not any(_same(got, w) for w in want[2]):
            raise Violation(sub, 'split_path(%r, %r, %r, %r) = %r, allowed '
                            '%r' % (path, minsegs, maxsegs, rwl, got,
                                    want[2]), case)
    elif not _same(got, want):
        raise Violation(sub, 'split_path(%r, %r, %r, %r): model %r, real %r'
                        % (path, minsegs, maxsegs, rwl, want, got), case)
    return want


def _same(got, want):
    if got[0] != want[0]:
        return False
    if got[0] == 'ok':
        return list(got[1]) == list(want[1]) and \
            all(type(a) is type(b) for a, b in zip(got[1], want[1]))
    return True


def param_space():
    out = []
    for mn in (1, 2, 3, 4):
        mx = [None, 0] + [v for v in range(mn - 1, mn + 3) if v != 0]
        for m in mx:
            for rwl in (False, True):
                out.append((mn, m, rwl))
    return out


def enum_paths(kmax):
    for lead in ('/', ''):
        for k in range(0, kmax + 1):
            for kinds in itertools.product(KINDS, repeat=k):
                if k == 1 and kinds[0] == 'empty':
                    continue        # same string as k == 0
                yield lead + '/'.join(render_segment(kd, i)
                                      for i, kd in enumerate(kinds))


def split_path_exhaustive(col, kmax, shard, nshards):
    sub = 'split_path/exhaustive'
    params = param_space()
    hist = collections.Counter()
    sampled = set()
    n_nt = 0
    complete = True
    for idx, path in enumerate(enum_paths(kmax)):
        if idx % nshards != shard:
            continue
        if (idx & 0xff) == 0 and col.out_of_time():
            complete = False
            break
        for mn, mx, rwl in params:
            case = {'path': path, 'minsegs': mn, 'maxsegs': mx, 'rwl': rwl}
            want = check_split_path(case, sub)
            cls, nt = classify_path(path, mn, mx, rwl, want)
            if want[0] == 'unspec':
                col.unspec(sub, want[1])
            if cls not in sampled:
                sampled.add(cls)
                col.case(sub, (path, mn, mx, rwl), nt, cls, case)
                continue
            hist[cls] += 1
            if nt:
                n_nt += 1
    for cls, n in sorted(hist.items()):
        col.count(sub, n, cls)
    col.distinct_extra += n_nt      # argument tuples are distinct
    col.exhaustive[sub] = complete


def split_path_random(col, seed, max_examples):
    from hypothesis import strategies as st
    sub = 'split_path/random'
    seg = st.one_of(
        st.sampled_from(['a', 'b', '', '', '.', '..', 'a b', ' ', '%2F',
                         'x\ny', '\\', '?q=1', '#']),
        st.text(alphabet=st.characters(blacklist_characters='/',
                                       blacklist_categories=('Cs',)),
                max_size=4))

    @st.composite
    def cases(draw):
        mn = draw(st.integers(1, 6))
        mx = draw(st.one_of(st.none(), st.just(0),
                            st.integers(max(0, mn - 1), mn + 3)))
        m = mx or mn
        # weight towards the boundary: segment count around min / max
        n = draw(st.one_of(st.integers(max(0, mn - 1), mn + 1),
                           st.integers(max(0, m - 1), m + 2),
                           st.integers(0, 10)))
        segs = draw(st.lists(seg, min_size=n, max_size=n))
        lead = draw(st.sampled_from(['/', '/', '/', '/', '/', '', '//']))
        tail = draw(st.sampled_from(['', '', '', '/', '//']))
        return {'path': lead + '/'.join(segs) + tail, 'minsegs': mn,
                'maxsegs': mx, 'rwl': draw(st.booleans())}

    def oracle(col, case):
        want = check_split_path(case, sub)
        cls, nt = classify_path(case['path'], case['minsegs'],
                                case['maxsegs'], case['rwl'], want)
        if want[0] == 'unspec':
            col.unspec(sub, want[1])
        col.case(sub, (case['path'], case['minsegs'], case['maxsegs'],
                       case['rwl']), nt, cls, case)

    run_given(col, cases(), oracle, seed, max_examples)


# ---------------------------------------------------------------------------
# split_by_commas
# ---------------------------------------------------------------------------

NEEDS_QUOTES = ',"\\ '


def quote_item(item, always=False):
    if always or item == '' or any(c in NEEDS_QUOTES for c in item):
        return '"' + item.replace('\\', '\\\\').replace('"', '\\"') + '"'
    return item


def ref_scan(value, bare_backslash_ok=False):
    """Reference reading of a comma list, written from the statement.

    Returns ('ok', items) | ('err', why) | ('unspec', why).
    """
    unspec = None
    items = []
    i = 0
    n = len(value)
    err = None
    while True:
        # one item starts at i
        if i < n and value[i] == '"':
            i += 1
            buf = []
            closed = False
            while i < n:
                c = value[i]
                if c == '\\':
                    if i + 1 >= n:
                        break
                    e = value[i + 1]
                    if e not in '"\\':
                        unspec = unspec or 'escape-of-ordinary-char'
                    buf.append(e)
                    i += 2
                elif c == '"':
                    closed = True
                    i += 1
                    break
                else:
                    if c in '\r\n':
                        unspec = unspec or 'newline-in-quotes'
                    buf.append(c)
                    i += 1
            if not closed:
                err = err or 'unbalanced-quote'
                break
            items.append(''.join(buf))
            if i < n and value[i] != ',':
                if value[i].isspace():
                    unspec = unspec or 'unquoted-space'
                err = err or 'text-after-closing-quote'
                break
        else:
            j = i
            while j < n and value[j] != ',':
                j += 1
            word = value[i:j]
            if word == '':
                err = err or 'empty-unquoted-item'
                break
            for c in word:
                if c == '"':
                    err = err or 'quote-in-bare-word'
                elif c == '\\':
                    if not bare_backslash_ok:
                        unspec = unspec or 'unquoted-backslash'
                elif c.isspace():
                    unspec = unspec or 'unquoted-space'
                elif not (0x21 <= ord(c) <= 0x7e):
                    unspec = unspec or 'unquoted-nonprintable'
            if err:
                break
            items.append(word)
            i = j
        if i >= n:
            break
        # value[i] == ','
        i += 1
    if unspec:
        return ('unspec', unspec)
    if err:
        return ('err', err)
    return ('ok', items)


def ref_scan3(value):
    """ref_scan plus, for the unquoted-backslash zone, the literal reading.

    Returns (verdict, allowed) where allowed is None (only "ValueError or
    list of str" can be asserted) or the list of acceptable outcomes.
    """
    want = ref_scan(value)
    if want == ('unspec', 'unquoted-backslash'):
        # a backslash in a bare word is either rejected or an ordinary
        # character (the unit tests pin the latter); nothing else is sane
        lit = ref_scan(value, bare_backslash_ok=True)
        if lit[0] == 'err':
            return want, [('err',)]
        if lit[0] == 'ok':
            return want, [('err',), lit]
    return want, None


def real_commas(value):
    from oslo_utils import strutils
    try:
        r = strutils.split_by_commas(argtypes.maybe(value))
    except ValueError:
        return ('err',)
    except Exception as e:
        return ('raised', type(e).__name__)
    return ('ok', r)


def ends_inside_quotes(value):
    """True when a quoted string is still open at the end of the text: a
    quote opens one, inside it a backslash escapes the next character, the
    next bare quote closes it.  Independent of what unquoted blanks mean."""
    inside = False
    i = 0
    while i < len(value):
        c = value[i]
        if inside and c == '\\':
            i += 2
            continue
        if c == '"':
            inside = not inside
        i += 1
    return inside


def check_commas_text(col, sub, value, must=None):
    """Compare split_by_commas(value) with the reference scanner.

    must: optional class the construction guarantees ('err'); if the scanner
    disagrees with the construction the harness is inconsistent.
    """
    case = {'value': value}
    if must:
        case['must'] = must
    want, allowed = ref_scan3(value)
    if must and want[0] != must:
        if want[0] != 'unspec':
            raise core.HarnessError('construction %r expected %s, reference '
                                    'scanner says %r' % (value, must, want))
    got = real_commas(value)
    if got[0] == 'raised':
        raise Violation(sub, 'split_by_commas(%r) raised %s, only ValueError '
                        'is allowed' % (value, got[1]), case)
    if got[0] == 'ok' and not (isinstance(got[1], list) and
                               all(isinstance(x, str) for x in got[1])):
        raise Violation(sub, 'split_by_commas(%r) returned %r, not a list of '
                        'str' % (value, got[1]), case)
    if want[0] == 'unspec':
        col.unspec(sub, want[1])
        if want[1] == 'unquoted-space' and ends_inside_quotes(value) and \
                got[0] != 'err':
            # whatever blanks between items mean, an opening quote that is
            # never closed is unbalanced quoting
            raise Violation(sub, 'split_by_commas(%r) returned %r, expected '
                            'ValueError (a quoted string is never closed)'
                            % (value, got[1]), case)
        if allowed is not None and got not in allowed:
            raise Violation(sub, 'split_by_commas(%r) = %r; an unquoted '
                            'backslash is either rejected or literal: '
                            'allowed %r' % (value, got, allowed), case)
    elif want[0] == 'err':
        if got[0] != 'err':
            raise Violation(sub, 'split_by_commas(%r) returned %r, expected '
                            'ValueError (%s)' % (value, got[1], want[1]),
                            case)
    else:
        if got[0] != 'ok' or got[1] != want[1]:
            raise Violation(sub, 'split_by_commas(%r): reference %r, real %r'
                            % (value, want[1], got), case)
    nt = any(c in value for c in '"\\') or want == ('err',
                                                    'empty-unquoted-item')
    cls = want[0] + ('/' + want[1] if want[0] != 'ok' else
                     ('/quoted' if '"' in value else '/plain'))
    col.case(sub, value, nt, cls, case)
    return want


def check_roundtrip(col, sub, items, mode):
    case = {'items': list(items), 'mode': mode}
    if mode == 'all':
        text = ','.join(quote_item(x, True) for x in items)
    elif mode == 'mixed':
        text = ','.join(quote_item(x, i % 2 == 0)
                        for i, x in enumerate(items))
    else:
        text = ','.join(quote_item(x) for x in items)
    ref = ref_scan(text)
    if ref != ('ok', list(items)):
        raise core.HarnessError('reference scanner does not invert quoting: '
                                '%r -> %r -> %r' % (items, text, ref))
    got = real_commas(text)
    if got != ('ok', list(items)):
        raise Violation(sub, 'split_by_commas(%r) = %r, expected the joined '
                        'items %r' % (text, got, list(items)), case)
    needs = [x for x in items if x == '' or any(c in NEEDS_QUOTES for c in x)]
    cls = []
    if not needs:
        cls.append('no-item-needs-quotes')
    for ch, name in ((',', 'comma'), ('"', 'quote'), ('\\', 'backslash'),
                     (' ', 'space')):
        if any(ch in x for x in items):
            cls.append('item-with-' + name)
    if '' in items:
        cls.append('empty-item')
    if any(x.endswith('\\') for x in items):
        cls.append('item-ending-in-backslash')
    cls.append('mode-' + mode)
    col.case(sub, text, bool(needs), cls, case)


def commas_roundtrip(col, seed, max_examples):
    from hypothesis import strategies as st
    sub = 'commas/roundtrip'
    ch = st.one_of(st.sampled_from(',"\\ '), st.sampled_from('abn'),
                   st.characters(min_codepoint=0x20, max_codepoint=0x7e))
    item = st.text(alphabet=ch, max_size=6)
    cases = st.tuples(st.lists(item, min_size=1, max_size=5),
                      st.sampled_from(['min', 'min', 'all', 'mixed']))

    def oracle(col, case):
        check_roundtrip(col, sub, case[0], case[1])

    run_given(col, cases, oracle, seed, max_examples)


GRAMMAR_ALPHABET = ('a', ',', '"', '\\', ' ')


def commas_grammar(col, length, prefix):
    """Every string of exactly `length` symbols starting with `prefix`."""
    sub = 'commas/grammar-exhaustive'
    complete = True
    for rest in itertools.product(GRAMMAR_ALPHABET,
                                  repeat=length - len(prefix)):
        if col.out_of_time():
            complete = False
            break
        check_commas_text(col, sub, prefix + ''.join(rest))
    col.exhaustive[sub] = complete


def commas_first_use(col, trials):
    """Schedules: the first split_by_commas calls in a process, by eight
    threads at once (core.first_use_race): malformed and well-formed lists
    mixed, each judged by the reference scanner."""
    sub = 'commas/first-use'
    texts = ('a,b', '"a,b",c', 'a"b,cd', 'a,', '"ab""b"', 'a,b"', ',a',
             'x', '"q"', 'a,,b', '"a\\"b"', 'ab"', '"', 'a, b', '', 'a,"')

    def make_jobs(t):
        jobs = []
        for i in range(8):
            v = texts[(t * 3 + i * 5) % len(texts)]
            jobs.append((v, {'value': v}, lambda v=v: check_commas_text(
                core.Collector(), sub, v)))
        return jobs

    core.first_use_race(col, sub, ['oslo_utils.strutils'], make_jobs, trials)


def commas_preempt(col):
    """Every single preemption (line granularity) of the first
    split_by_commas call of a process by a second one."""
    sub = 'commas/preempt'
    pairs = (('a,b', 'a"b,cd'), ('a,', '"q",x'), ('"a,b",c', 'a,b"'),
             ('x', '"ab""b"'))
    for a, b in pairs:
        core.preemption_sweep(
            col, sub, ['oslo_utils.strutils'],
            lambda a=a: check_commas_text(core.Collector(), sub, a),
            lambda b=b: check_commas_text(core.Collector(), sub, b),
            'split_by_commas(%r) | split_by_commas(%r)' % (a, b),
            sample={'value': b})
    col.exhaustive.setdefault(sub, False)


def commas_lines(col):
    """Deterministic: a well-formed beginning, a line break (or other
    blanks), then a remainder that opens a quote and never closes it."""
    sub = 'commas/lines'
    for head in ('a,b', '"x",y', 'a', '"q,q"', 'a,b,c,d'):
        for br in ('\n', '\r\n', '\n\n', '\t', ' \n ', '\r', '\x0b',
                   '\x0c'):
            for tail in ('"c', ',"d', '"', '"e\\"', ',"f,g', '"h\n'):
                check_commas_text(col, sub, head + br + tail)
    col.exhaustive[sub] = True


def commas_format_tokens(col):
    """Deterministic: every malformed construction with printf / str.format
    tokens in the offending text (and the same tokens in well-formed lists,
    which must come back verbatim)."""
    sub = 'commas/malformed'
    tokens = ('%s', '%d', '50%d', '%(k)s', '%', '%%', '{}', '{0}', '{k}',
              'a%sb', '%r', '%5.2f', '%c', '%x', '%(', '%)')
    for t in tokens:
        for bad in ('"' + t, t + '"', t + '"' + t, '"' + t + '"' + t,
                    '"x"' + t, t + ',,b', ',' + t, t + ',', '"' + t + '\\"'):
            for pre in ('', 'ok,', '"q,q",'):
                check_commas_text(col, sub, pre + bad, must='err')
        check_roundtrip(col, 'commas/roundtrip', [t, 'x', t + ',' + t],
                        'min')
        check_roundtrip(col, 'commas/roundtrip', [t], 'all')
    col.exhaustive.setdefault(sub, False)


def commas_malformed(col, seed, max_examples):
    from hypothesis import strategies as st
    sub = 'commas/malformed'
    plain_ch = st.sampled_from('ab-_.:/\'=1')
    # words also carry printf-style tokens and braces: an error path that
    # formats the offending value must still end in ValueError
    word = st.one_of(
        st.text(alphabet=plain_ch, min_size=1, max_size=4),
        st.sampled_from(['%s', '%d', '50%d', '%(k)s', '%', '%%', '{}', '{0}',
                         '{k}', 'a%sb', '%r', '%5.2f', '%c', '%x']))
    inner = st.text(alphabet=st.one_of(plain_ch, st.sampled_from(', ')),
                    max_size=4)
    good_item = st.text(alphabet=st.one_of(plain_ch,
                                           st.sampled_from(',"\\ ')),
                        max_size=5)

    @st.composite
    def cases(draw):
        items = draw(st.lists(good_item, max_size=3))
        rendered = [quote_item(x, draw(st.booleans())) for x in items]
        kind = draw(st.sampled_from([
            'unbalanced-open-last', 'closing-quote-only', 'quote-in-bare',
            'text-after-close', 'quoted-after-close', 'empty-item',
            'odd-backslash-before-close']))
        pos = draw(st.integers(0, len(rendered)))
        if kind == 'unbalanced-open-last':
            bad = '"' + draw(inner)
            pos = len(rendered)
        elif kind == 'odd-backslash-before-close':
            # "...\"  : the quote is escaped, the string never closes
            bad = '"' + draw(inner) + '\\"'
            pos = len(rendered)
        elif kind == 'closing-quote-only':
            bad = draw(word) + '"'
        elif kind == 'quote-in-bare':
            bad = draw(word) + '"' + draw(word)
        elif kind == 'text-after-close':
            bad = quote_item(draw(inner), True) + draw(word)
        elif kind == 'quoted-after-close':
            bad = quote_item(draw(inner), True) + quote_item(draw(inner),
                                                             True)
        else:
            bad = ''
        rendered.insert(pos, bad)
        return {'value': ','.join(rendered), 'kind': kind}

    def oracle(col, case):
        check_commas_text(col, sub, case['value'], must='err')
        col.classes['%s:kind/%s' % (sub, case['kind'])] += 1

    run_given(col, cases(), oracle, seed, max_examples)


# ---------------------------------------------------------------------------

def tasks(tier, seed):
    out = []
    if tier == 'quick':
        kmax, shards = 7, 16
        rnd_shards, rnd_n = 6, 1000
        rt_shards, rt_n = 12, 1200
        mal_shards, mal_n = 6, 1200
        glen = 7
    else:
        kmax, shards = 8, 32
        rnd_shards, rnd_n = 8, 6000
        rt_shards, rt_n = 16, 5000
        mal_shards, mal_n = 8, 5000
        glen = 8
    # slow pyparsing tasks first so that they overlap the cheap ones
    a = GRAMMAR_ALPHABET
    for ln in range(glen, -1, -1):
        if ln >= 5:
            for p in itertools.product(a, repeat=2):
                out.append(Task('commas/grammar-exhaustive', commas_grammar,
                                length=ln, prefix=''.join(p)))
        else:
            out.append(Task('commas/grammar-exhaustive', commas_grammar,
                            length=ln, prefix=''))
    for i in range(rt_shards):
        out.append(Task('commas/roundtrip', commas_roundtrip,
                        seed=core.derive_seed(seed, ID, 'rt', i),
                        max_examples=rt_n))
    for i in range(mal_shards):
        if i == 0:
            out.append(Task('commas/malformed', commas_format_tokens))
            out.append(Task('commas/preempt', commas_preempt))
            out.append(Task('commas/lines', commas_lines))
            out.append(Task('commas/first-use', commas_first_use,
                            trials=30 if tier == 'quick' else 300))
        out.append(Task('commas/malformed', commas_malformed,
                        seed=core.derive_seed(seed, ID, 'mal', i),
                        max_examples=mal_n))
    for s in range(shards):
        out.append(Task('split_path/exhaustive', split_path_exhaustive,
                        kmax=kmax, shard=s, nshards=shards))
    for i in range(rnd_shards):
        out.append(Task('split_path/random', split_path_random,
                        seed=core.derive_seed(seed, ID, 'sp', i),
                        max_examples=rnd_n))
    return out


def replay(rec):
    case = rec['case']
    sub = rec.get('sub', 'replay')
    col = core.Collector()
    if case.get('preempt'):
        commas_preempt(col)
    elif case.get('first_use_threads'):
        commas_first_use(col, case.get('trial', 0) + 1)
    elif 'path' in case:
        check_split_path(case, sub)
    elif 'items' in case:
        check_roundtrip(col, sub, case['items'], case.get('mode', 'min'))
    elif 'value' in case:
        check_commas_text(col, sub, case['value'], case.get('must'))
    else:
        raise core.HarnessError('unknown C19 case %r' % (case,))
