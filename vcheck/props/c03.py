"""C03 - format detection is exclusive, conservative about raw, and total.

Reference model: vcheck.sigmodel decides, independently of the inspectors,
which format signatures are definitely present / definitely absent / marginal
in a content.  With D = definite and M = marginal (both restricted to the
allowed formats) the admissible outcomes of InspectWrapper.format after
close() are, for every S with D <= S <= D|M:  |S| = 1 -> that format,
|S| >= 2 -> ImageFormatError, |S| = 0 -> raw if raw is allowed, else
ImageFormatError.  Totality: nothing but ImageFormatError may come out of
format / formats / read / close / detect_file_format.  No revision: format
is sampled after every read.
"""

import itertools
import os
import shutil
import tempfile

from vcheck import chunking, core, imgdrive, sigmodel
from vcheck.core import Task, Violation

ID = 'C03'
LEVEL = 'exploration'
BUDGET = {'quick': 60, 'thorough': 600}
# deterministic sub-checks repeated in a `python -O` child (core.optimized_child)
OPT_SUBS = ('restricted#4', 'nearmiss')
# documented call interface the generated calls rely on (vcheck/callstyle.py)
INTERFACE = [('oslo_utils.imageutils.format_inspector', None)]
RULE = ('contents: every subset of the nine signatures (one offset-0 '
        'signature x any of VDI@0x40, MBR@510, ISO@32769, plus the FAT '
        'look-alike) stamped on zero/random/text backgrounds at lengths on '
        'both sides of every decision point (enumerated), valid images of '
        'each format, trait mixes, mutated/truncated/extended images and '
        'unstructured text/binary (Hypothesis); x allowed_formats (None, [], '
        'singletons, pairs with raw, all-but-one, random subsets) x read '
        'sizes x read()/iteration; format sampled after every read. '
        'Non-trivial: >= 1 signature present or marginal, or a length within '
        '1 of a decision point, or a restricted allowed_formats; distinct by '
        '(content hash, allowed set, schedule, mode).')
ASSUMPTIONS = [
    'sigmodel.sig is the reference for "signature present"; marginal content '
    '(magic present, structure cut short) admits either answer',
    'content in the recorded text-descriptor VMDK class (finding F-c of C01: text mode with a createType=" line somewhere) '
    'is marginal for vmdk: only totality and exclusivity are judged there',
    'a decision that is withdrawn (format returns to None) and later '
    'reinstated with the same name is counted, not flagged',
]

ALL = ('raw',) + sigmodel.NON_RAW
LENGTH_POINTS = (0, 4, 6, 8, 32, 64, 0x44, 510, 512, 592, 32769, 32774,
                 34816)


def admissible(data, allowed):
    """Set of admissible `format` outcomes (format names / 'ImageFormatError')
    and the (D, M) sets."""
    names = ALL if not allowed else tuple(a for a in ALL if a in allowed)
    d, m = sigmodel.classify(data, allowed=names)
    raw_ok = 'raw' in names
    out = set()
    mlist = sorted(m)
    for r in range(len(mlist) + 1):
        for extra in itertools.combinations(mlist, r):
            s = d | set(extra)
            if len(s) == 1:
                out.add(next(iter(s)))
            elif len(s) >= 2:
                out.add('ImageFormatError')
            else:
                out.add('raw' if raw_ok else 'ImageFormatError')
    return out, d, m, names


def check_detection(col, case, sub='wrapper'):
    from vcheck import imgstrat
    data, img = imgstrat.realize(case['content'])
    allowed = case.get('allowed')
    sched = case['schedule']
    mode = case.get('mode', 'read')
    adm, d, m, names = admissible(data, allowed)
    imgdrive.tracing_for((core.h64(data), repr(sched), mode))
    # an expected_format that is NOT among the allowed formats must have no
    # effect at all (that format is never considered, nothing can abort)
    # expected_format: either outside the allowed formats (it must then have
    # no effect at all), or a format whose signature is definitely present
    # (its inspector matches, so nothing aborts and detection must behave as
    # without it).  A stream the expected inspector aborts is C06's subject:
    # not judged here.
    expected = case.get('expected')
    inside = expected is not None and (not allowed or expected in allowed)
    if inside and expected not in d:
        raise core.HarnessError('C03 uses an allowed expected_format only '
                                'when its signature is present: %r' % (case,))
    with imgdrive.inspector_loglevel(case.get('loglevel')):
        (fm, fs), samples, got, err, w = imgdrive.drive_wrapper(
            data, sched, mode, allowed=allowed, sample=True,
            expected=expected)
    if inside and err is not None:
        col.unspec(sub, 'expected inspector aborted the stream (C06)')
        return
    n = len(data)
    near = any(abs(n - p) <= 1 for p in LENGTH_POINTS)
    kind = case['content'].get('kind', '?')
    col.case(sub, (core.h64(data), tuple(allowed) if allowed else None,
                   sched, mode),
             bool(d or m) or near or bool(allowed),
             ['kind=' + kind, 'definite=%d' % min(len(d), 3),
              'marginal=%d' % min(len(m), 2),
              'allowed=' + ('all' if not allowed else
                            ('1' if len(allowed) == 1 else 'subset')),
              'outcome=' + str(fm), 'mode=' + mode] +
             (['expected-' + ('inside' if inside else 'outside')]
              if expected else []) +
             (['loglevel=' + case['loglevel']] if case.get('loglevel')
              else []),
             {'content': _brief(case['content']), 'len': n,
              'allowed': allowed, 'expected': expected,
              'schedule': _short(sched), 'mode': mode,
              'definite': sorted(d), 'marginal': sorted(m), 'format': fm,
              'formats': fs})

    def bad(msg):
        raise Violation(sub, msg, case)

    # totality
    if err is not None:
        bad('reading %d bytes through InspectWrapper raised %s' % (n, err))
    for what, val in (('format', fm), ('formats', fs)):
        if isinstance(val, str) and val.startswith('raises:'):
            bad('InspectWrapper.%s raised %s (only ImageFormatError is '
                'allowed) on %d bytes, allowed_formats=%r'
                % (what, val[7:], n, allowed))
    for i, (sfm, sfs) in enumerate(samples):
        for what, val in (('format', sfm), ('formats', sfs)):
            if isinstance(val, str) and val.startswith('raises:'):
                bad('InspectWrapper.%s raised %s after read %d'
                    % (what, val[7:], i))
    if got != data:
        bad('bytes read through the wrapper differ from the source')
    # exclusivity / raw / allowed
    if fm is None:
        bad('format is undecided (None) after close()')
    if fm not in adm:
        bad('format after close() is %r; content has definite signatures %s, '
            'marginal %s, allowed %s => admissible %s'
            % (fm, sorted(d), sorted(m),
               'all' if not allowed else sorted(names), sorted(adm)))
    if isinstance(fs, list):
        if 'raw' in fs and len(fs) > 1:
            bad('formats lists raw together with %r' % (fs,))
        for f in fs:
            if f not in names:
                bad('formats contains %r which is outside allowed_formats %r'
                    % (f, allowed))
        non_raw = set(fs) - {'raw'}
        if not (d <= non_raw or fs == ['raw'] and not d) or \
                not non_raw <= (d | m):
            bad('formats after close() is %r; definite %s, marginal %s'
                % (fs, sorted(d), sorted(m)))
        # format must be the exactly-one reading of formats
        want = (fs[0] if len(fs) == 1 else 'ImageFormatError')
        if fm != want:
            bad('format is %r but formats is %r' % (fm, fs))
    elif fs != 'ImageFormatError':
        bad('formats is %r after close()' % (fs,))
    # no revision
    decided = None
    for i, (sfm, _sfs) in enumerate(samples):
        if sfm is None:
            if decided is not None:
                col.unspec(sub, 'decision withdrawn mid-stream')
            continue
        if decided is None:
            decided = (i, sfm)
        elif sfm != decided[1]:
            bad('format reported %r after read %d and %r after read %d'
                % (decided[1], decided[0], sfm, i))
    if decided is not None and fm != decided[1]:
        bad('format reported %r after read %d but %r after close()'
            % (decided[1], decided[0], fm))


def check_detect_file(col, case, tmpdir, sub='detect_file'):
    from vcheck import imgstrat
    F = imgdrive.fi()
    data, img = imgstrat.realize(case['content'])
    adm, d, m, names = admissible(data, None)
    path = os.path.join(tmpdir, 'f-%016x' % core.h64(data))
    with open(path, 'wb') as f:
        f.write(data)
    try:
        try:
            r = F.detect_file_format(path)
            out = None if r is None else str(r)
        except F.ImageFormatError:
            out = 'ImageFormatError'
        except Exception as e:
            out = 'raises:' + type(e).__name__
    finally:
        os.unlink(path)
    kind = case['content'].get('kind', '?')
    col.case(sub, core.h64(data), bool(d or m),
             ['kind=' + kind, 'outcome=' + str(out)],
             {'content': _brief(case['content']), 'len': len(data),
              'definite': sorted(d), 'marginal': sorted(m), 'outcome': out})
    if out is None or out.startswith('raises:'):
        raise Violation(sub, 'detect_file_format gave %r on %d bytes'
                        % (out, len(data)), case)
    if out not in adm:
        raise Violation(
            sub, 'detect_file_format says %r; definite signatures %s, '
            'marginal %s => admissible %s' % (out, sorted(d), sorted(m),
                                              sorted(adm)), case)


def _short(sched):
    if sched[0] == 'fixed' or len(sched[1]) <= 12:
        return sched
    return ['sizes', sched[1][:12] + ['...']]


def _brief(content):
    c = dict(content)
    if 'bytes' in c and len(c['bytes']) > 120:
        c['bytes'] = c['bytes'][:120] + '...'
    return c


# ---------------------------------------------------------------- searches

def overlay_sweep(col, sig0, background):
    """All subsets {sig0} x 2^{vdi,gpt,iso} (+FAT) x lengths around every
    decision point, unrestricted detection, three read patterns."""
    sub = 'overlay'
    others = ('vdi', 'gpt', 'iso')
    lengths = sorted({max(0, p + d) for p in LENGTH_POINTS
                      for d in (-1, 0, 1)} | {100, 1000, 40000, 262143,
                                              262144, 262145, 300000})
    for r in range(len(others) + 1):
        for extra in itertools.combinations(others, r):
            sigs = ([sig0] if sig0 else []) + list(extra)
            for length in lengths:
                for fat in ((False, True, 'numfats', 'media')
                            if 'gpt' in extra else (False,)):
                    if isinstance(fat, str) and length > 70000:
                        continue        # the first sector decides this
                    content = {'overlay': dict(length=length,
                                               background=background,
                                               sigs=sigs, fill=7, fat=fat),
                               'kind': 'polyglot'}
                    patterns = ((['fixed', 512], 'read'),
                                (['sizes', [length]], 'iter'),
                                (['fixed', 4096], 'read'))
                    if length > 100000:
                        patterns = ((['fixed', 65536], 'read'),)
                    for sched, mode in patterns:
                        check_detection(col, {'content': content,
                                              'allowed': None,
                                              'schedule': sched,
                                              'mode': mode}, sub)
                    if len(sigs) >= 2:
                        from vcheck import imgstrat
                        present, _m = sigmodel.classify(
                            imgstrat.realize(content)[0])
                        for exp in sorted(present):
                            check_detection(col, {
                                'content': content, 'allowed': None,
                                'expected': exp, 'schedule': ['fixed', 512],
                                'mode': 'read'}, sub)
    col.exhaustive.setdefault(sub, True)


def restricted_sweep(col, fmt):
    """allowed_formats = [F] and [F, raw] on F's own content (valid image,
    bare signature, foreign content) with tiny reads, format sampled before
    the first read and after every read."""
    from vcheck import imggen
    sub = 'restricted'
    contents = [{'base': [fmt, {}], 'kind': 'valid', 'cut': 3000},
                {'overlay': dict(length=700, background='zero', sigs=[fmt]),
                 'kind': 'polyglot'},
                {'overlay': dict(length=700, background='random', sigs=[]),
                 'kind': 'polyglot'},
                {'base': ['raw', dict(length=700, kind='ascii')],
                 'kind': 'valid'},
                {'bytes': ('\n'.join(imggen.VMDK_DEFAULT_LINES) + '\n')
                 .encode().hex(), 'kind': 'textdesc'}]
    if fmt == 'vmdk':
        # an ASCII createType line followed by binary: not text, no KDMV
        for head in (b'createType="monolithicSparse"\n',
                     b'createType="streamOptimized"\nRW 1 SPARSE "a"\n'):
            contents.append({'bytes': (head + b'\x00\xff\x80\x01' * 150)
                             .hex(), 'kind': 'textdesc'})
            contents.append({'bytes': (head[:40] + b'\xff' + head[40:]
                                       + b'\n' * 100).hex(),
                             'kind': 'textdesc'})
        # prose (no createType line anywhere) with one non-ASCII character
        # before / inside / after the first sector and the first 4 KiB read
        for late in (0, 3, 63, 64, 300, 511, 512, 513, 700, 4095, 4096,
                     5000):
            contents.append({'base': ['raw', dict(length=6000, kind='utf8',
                                                  late=late)],
                             'kind': 'prose'})
    if fmt in ('vhdx', 'iso'):
        contents[0] = {'base': [fmt, {}], 'kind': 'valid'}
    for content in contents:
        for allowed in ([fmt], [fmt, 'raw'], ['raw', fmt, 'qcow2']):
            for k in (1, 3, 7, 8, 9, 12, 16, 32, 512, 4096):
                from vcheck import imgstrat
                n = len(imgstrat.realize(content)[0])
                if n / k > 5000:
                    continue
                if content['kind'] == 'prose' and k not in (9, 512, 4096):
                    continue
                for mode in ('read', 'iter', 'short'):
                    check_detection(col, {'content': content,
                                          'allowed': allowed,
                                          'schedule': ['fixed', k],
                                          'mode': mode}, sub)
                # the format's own content, that format NOT allowed but
                # named as expected_format
                others = [f for f in ('raw', 'qcow2', 'gpt') if f != fmt]
                check_detection(col, {'content': content, 'allowed': others,
                                      'expected': fmt,
                                      'schedule': ['fixed', k],
                                      'mode': 'read',
                                      'loglevel': 'DEBUG' if k == 7 else None},
                                sub)
    col.exhaustive.setdefault(sub, True)


def nearmiss_sweep(col, background):
    """Every single-byte corruption of every signature, alone and next to an
    intact second signature: the corrupted format must not be reported."""
    from vcheck import imggen
    sub = 'nearmiss'
    for name, (off, sig, need) in imggen.SIGNATURES.items():
        for idx in range(len(sig)):
            for other in (None, 'gpt', 'vdi'):
                if other == name:
                    continue
                for length in (max(need, 600) + 5, 300000):
                    if length == 300000 and name not in ('vhdx', 'iso'):
                        continue
                    sigs = [name] + ([other] if other else [])
                    content = {'overlay': dict(
                        length=length, background=background, sigs=sigs,
                        fill=3, corrupt={name: idx}), 'kind': 'polyglot'}
                    check_detection(col, {'content': content, 'allowed': None,
                                          'schedule': ['fixed', 4096],
                                          'mode': 'read'}, sub)
    # the bytes right before and after an intact signature take every value
    from vcheck import imgstrat
    for name, (off, sig, need) in imggen.SIGNATURES.items():
        length = max(need, 600) + 5
        base = imggen.overlay(length, background, (name,), 3)
        for pos in (off - 1, off + len(sig)):
            if pos < 0:
                continue
            for v in range(256):
                data = bytearray(base)
                data[pos] = v
                if name == 'gpt' and data[0x10] == 2 and data[0x15] == 0xF8:
                    continue
                content = {'bytes': bytes(data).hex(), 'kind': 'polyglot'}
                check_detection(col, {'content': content, 'allowed': None,
                                      'schedule': ['fixed', 4096],
                                      'mode': 'read'}, sub)
    col.exhaustive.setdefault(sub, True)


def detect_sweep(col, background):
    """detect_file_format on every signature subset at three lengths
    (below / above the point where every inspector is complete)."""
    sub = 'detect_file'
    tmpdir = _scratch()
    try:
        for sig0 in (None, 'qcow2', 'qed', 'vhd', 'vhdx', 'vmdk', 'luks'):
            for r in range(4):
                for extra in itertools.combinations(('vdi', 'gpt', 'iso'),
                                                    r):
                    sigs = ([sig0] if sig0 else []) + list(extra)
                    for length in (600, 40000, 262144, 300000):
                        content = {'overlay': dict(
                            length=length, background=background, sigs=sigs,
                            fill=5, fat=False), 'kind': 'polyglot'}
                        check_detect_file(col, {'content': content}, tmpdir,
                                          sub)
    finally:
        shutil.rmtree(tmpdir, ignore_errors=True)


def _allowed_strategy():
    from hypothesis import strategies as st
    names = list(ALL)
    return st.one_of(
        st.none(), st.none(), st.just([]),
        st.sampled_from(names).map(lambda x: [x]),
        st.sampled_from(names[1:]).map(lambda x: ['raw', x]),
        st.sampled_from(names).map(lambda x: [n for n in names if n != x]),
        st.lists(st.sampled_from(names), min_size=1, max_size=5,
                 unique=True))


def wrapper(col, seed, max_examples, fmts, max_len):
    from hypothesis import strategies as st
    from vcheck import imgstrat

    @st.composite
    def cases(draw):
        content = draw(st.one_of(imgstrat.any_content(fmts),
                                 imgstrat.polyglots(),
                                 imgstrat.valid_images(fmts)))
        data, img = imgstrat.realize(content)
        if len(data) > max_len:
            content = dict(content, cut=max_len)
            data, img = imgstrat.realize(content)
        n = len(data)
        sched = draw(st.one_of(
            st.sampled_from([['fixed', k] for k in (1, 7, 32, 512, 4096,
                                                    65536)
                             if n / k <= 2048] + [['sizes', [n]]]),
            chunking.schedules(n, (4, 8, 64, 512, 592, 34816),
                               allow_tiny=n <= 20000)))
        allowed = draw(_allowed_strategy())
        expected = None
        if allowed and draw(st.booleans()):
            outside = [f for f in ALL if f not in allowed]
            if outside:
                expected = draw(st.sampled_from(outside))
        elif draw(st.booleans()):
            present, _m = sigmodel.classify(
                data, allowed=None if not allowed else allowed)
            if present:
                expected = draw(st.sampled_from(sorted(present)))
        return {'content': content, 'allowed': allowed, 'expected': expected,
                'schedule': sched,
                'loglevel': draw(st.sampled_from([None, None, 'DEBUG'])),
                'mode': draw(st.sampled_from(['read', 'read', 'iter',
                                              'short']))}
    core.run_given(col, cases(), lambda c, case: check_detection(c, case),
                   seed, max_examples)


def _scratch():
    for d in ('/dev/shm', os.environ.get('TMPDIR')):
        if d and os.path.isdir(d) and os.access(d, os.W_OK):
            return tempfile.mkdtemp(prefix='vcheck-c03-', dir=d)
    return tempfile.mkdtemp(prefix='vcheck-c03-')


def detect_file(col, seed, max_examples, fmts):
    from hypothesis import strategies as st
    from vcheck import imgstrat
    tmpdir = _scratch()
    try:
        @st.composite
        def cases(draw):
            return {'content': draw(st.one_of(
                imgstrat.any_content(fmts), imgstrat.polyglots(),
                imgstrat.unstructured()))}
        core.run_given(col, cases(), lambda c, case: check_detect_file(
            c, case, tmpdir), seed, max_examples)
    finally:
        shutil.rmtree(tmpdir, ignore_errors=True)


SMALL = ('raw', 'qcow2', 'vhd', 'vmdk', 'vdi', 'qed', 'gpt', 'luks')
ALLF = SMALL + ('iso', 'vhdx')


def tasks(tier, seed):
    out = []
    for sig0 in (None, 'qcow2', 'qed', 'vhd', 'vhdx', 'vmdk', 'luks'):
        for bg in ('zero', 'random', 'text'):
            out.append(Task('overlay', overlay_sweep, sig0=sig0,
                            background=bg))
    for bg in ('zero', 'random', 'text'):
        out.append(Task('detect_file', detect_sweep, background=bg))
    for fmt in sigmodel.NON_RAW:
        out.append(Task('restricted', restricted_sweep, fmt=fmt))
    for bg in ('zero', 'random'):
        out.append(Task('nearmiss', nearmiss_sweep, background=bg))
    if tier == 'quick':
        plan = [(SMALL + ('iso',), 70000, 500, 5), (('vhdx',), 400000, 60,
                                                     2)]
        dplan = (ALLF, 200, 3)
    else:
        plan = [(SMALL + ('iso',), 70000, 6000, 8), (('vhdx',), 3 << 20,
                                                      500, 4)]
        dplan = (ALLF, 2500, 4)
    for fmts, max_len, ex, shards in plan:
        for i in range(shards):
            out.append(Task('wrapper', wrapper,
                            seed=core.derive_seed(seed, ID, 'w', fmts, i),
                            max_examples=ex, fmts=fmts, max_len=max_len))
    fmts, ex, shards = dplan
    for i in range(shards):
        out.append(Task('detect_file', detect_file,
                        seed=core.derive_seed(seed, ID, 'd', i),
                        max_examples=ex, fmts=fmts))
    if tier == 'thorough':
        from vcheck import fuzzrun
        for i, (kind, max_len) in enumerate(
                [('small', 40000)] * 8 + [('empty', 4096)] * 4 +
                [('vhdx', 340000)] * 4):
            out.append(Task('atheris', fuzzrun.campaign, target='c03',
                            seed=core.derive_seed(seed, ID, 'atheris', i),
                            runs=200000, max_len=max_len, seeds=kind,
                            max_time=170))
    return out


def replay(rec):
    case = rec['case']
    col = core.Collector()
    if rec.get('sub', '').startswith('detect_file'):
        tmpdir = _scratch()
        try:
            check_detect_file(col, case, tmpdir)
        finally:
            shutil.rmtree(tmpdir, ignore_errors=True)
    else:
        check_detection(col, case, rec.get('sub') or 'wrapper')
