"""C16 - text coding helpers round-trip, keep their type contract, idempotent.

Round trip / algebraic laws over generated text x codec tables for
encodeutils.safe_decode / safe_encode / to_utf8 and strutils.to_slug.  The
oracle is Python's own codec machinery (str.encode / bytes.decode) applied the
way the property statement says; `incoming` is always passed explicitly (its
default depends on the process's stdin, i.e. on the environment).
"""

import codecs
import functools
import re

from vcheck import core
from vcheck import hypmemo
from vcheck.core import Task, Violation

ID = 'C16'
LEVEL = 'exploration'
BUDGET = {'quick': 45, 'thorough': 420}
# deterministic sub-checks repeated in a `python -O` child (core.optimized_child)
OPT_SUBS = ('typeerror', 'table', 'to_utf8')
# documented call interface the generated calls rely on (vcheck/callstyle.py)
INTERFACE = [('oslo_utils.encodeutils', None), ('oslo_utils.strutils', ['to_slug'])]
# pairs of sampled cases are run against each other under every single
# preemption inside these modules (core.preempt_pair)
PREEMPT_MODULES = ['oslo_utils.encodeutils', 'oslo_utils.strutils']
RULE = ('Hypothesis text (full Unicode without surrogates for the UTF '
        'codecs: BMP, astral, combining; for latin-1/ascii/cp1252/shift_jis/'
        'koi8-r/big5 an alphabet of the code points of Latin, Greek, '
        'Cyrillic, punctuation, kana and CJK blocks the codec can encode) and '
        'byte strings (valid in the codec, UTF-8 of non-ASCII text, another '
        'codec\'s bytes, arbitrary binary) x 11 codecs in 2..6 spellings '
        '(letter case, aliases) x errors in {strict, ignore, replace}. '
        'Families: decode (str identity; bytes decoded with the codec, UTF-8 '
        'fallback), encode-str (bytes of the codec; round trip through '
        'safe_decode when the codec is bijective on the text), encode-bytes '
        '(identity when the two names agree case-insensitively, also for '
        'bytes that are invalid in the codec; otherwise decode+encode), '
        'to_utf8, TypeError table (16 non-text values x 4 functions), to_slug '
        '(alphabet, no double hyphen, idempotence on Unicode text, ASCII '
        'punctuation soup and bytes; exact result for ASCII words joined by '
        'spaces/hyphens). Non-trivial: text with a non-ASCII character, or a '
        'non-UTF-8 codec, or bytes input with differing codec names, or a '
        'non-text argument; distinct by (function, argument, codec '
        'spellings, errors).')
ASSUMPTIONS = [
    'Python\'s codecs are the reference for what a codec name means and what '
    'it can represent; non-bijective code points (e.g. U+00A5 in shift_jis) '
    'are excluded from the round-trip law by the filter t.encode(e).decode(e) '
    '== t',
    '`incoming` is always passed explicitly; the stdin-dependent default is '
    'environment, not code',
    'unspecified and only type-checked: bytes that neither the given codec '
    'nor UTF-8 can decode under errors=strict; text the target codec cannot '
    'encode under errors=strict; safe_encode of bytes its `incoming` cannot '
    'decode; empty bytes transcoded to a codec with a BOM',
    'unknown codec names (LookupError) are not generated',
]


# canonical codec -> spellings (checked against codecs.lookup at start-up)
CODECS = {
    'utf-8': ('utf-8', 'UTF-8', 'utf8', 'Utf_8', 'U8', 'UTF8'),
    'utf-16': ('utf-16', 'UTF-16', 'utf16', 'U16'),
    'utf-32': ('utf-32', 'UTF32', 'u32'),
    'utf-16-le': ('utf-16-le', 'UTF-16LE'),
    'latin-1': ('latin-1', 'ISO-8859-1', 'latin1', 'L1', 'Latin_1'),
    'ascii': ('ascii', 'ASCII', 'us-ascii', '646'),
    'cp1252': ('cp1252', 'CP1252', 'windows-1252'),
    'shift_jis': ('shift_jis', 'Shift_JIS', 'sjis', 'SJIS'),
    'koi8-r': ('koi8-r', 'KOI8-R', 'koi8_r'),
    'big5': ('big5', 'BIG5', 'big5-tw'),
    'utf-8-sig': ('utf-8-sig', 'UTF-8-SIG'),
}
UTF_FAMILY = ('utf-8', 'utf-16', 'utf-32', 'utf-16-le', 'utf-8-sig')
ERRORS = ('strict', 'ignore', 'replace')

_BLOCKS = ((0x00, 0x180), (0x390, 0x460), (0x2010, 0x2040), (0x20a0, 0x20c0),
           (0x2100, 0x2130), (0x3000, 0x3100), (0x4e00, 0x4f00),
           (0xff61, 0xffa0))
_alphabets = {}


def legacy_alphabet(codec):
    """Characters of a few blocks that `codec` can encode (including the odd
    non-bijective one, so that the round-trip filter is exercised)."""
    if codec not in _alphabets:
        out = []
        for lo, hi in _BLOCKS:
            for cp in range(lo, hi):
                try:
                    chr(cp).encode(codec)
                except UnicodeEncodeError:
                    continue
                out.append(chr(cp))
        _alphabets[codec] = out
    return _alphabets[codec]


def check_codec_table():
    for canon, spellings in CODECS.items():
        want = codecs.lookup(canon).name
        for sp in spellings:
            for variant in (sp, sp.lower()):
                if codecs.lookup(variant).name != want:
                    raise core.HarnessError('codec spelling %r is not %r'
                                            % (variant, canon))


def _arg(case):
    if 'hex' in case:
        return bytes.fromhex(case['hex'])
    return case['text']


# Ambient configuration: the helpers must behave the same whatever the
# process' stdin encoding is whenever `incoming` is given explicitly (and
# to_utf8 has no such parameter at all), so every case runs under one of
# several fake sys.stdin objects (chosen from the case, kept in the case for
# replay).
AMBIENTS = (None, 'latin-1', 'ascii', 'utf-16', 'cp1252', 'UNSET')
_AMBIENT = [None]


class _FakeStdin:
    def __init__(self, enc):
        self.encoding = None if enc == 'UNSET' else enc


def _set_ambient(case):
    if 'ambient' not in case:
        case['ambient'] = AMBIENTS[core.h64(repr(sorted(
            (k, repr(v)) for k, v in case.items()))) % len(AMBIENTS)]
    _AMBIENT[0] = case['ambient']


def _run(fn, *a, **kw):
    import sys
    amb = _AMBIENT[0]
    saved = sys.stdin
    if amb is not None:
        sys.stdin = _FakeStdin(amb)
    try:
        return ('ok', fn(*a, **kw))
    except Exception as e:
        return ('exc', e)
    finally:
        sys.stdin = saved


def _show(r):
    if r[0] == 'ok':
        return 'returned %r' % (r[1],)
    return 'raised %s: %s' % (type(r[1]).__name__, r[1])


def _nonascii(x):
    if isinstance(x, bytes):
        return any(b >= 0x80 for b in x)
    return any(ord(c) >= 0x80 for c in x)


def _canon(name):
    return codecs.lookup(name).name


def _weak(col, sub, what, got, typ, case, call):
    """Unspecified zone: only the result type / exception class is judged."""
    col.unspec(sub, what)
    if got[0] == 'ok' and type(got[1]) is not typ:
        raise Violation(sub, '%s %s, expected %s or a UnicodeError'
                        % (call, _show(got), typ.__name__), case)
    if got[0] == 'exc' and not isinstance(got[1], UnicodeError):
        raise Violation(sub, '%s %s' % (call, _show(got)), case)


# --------------------------------------------------------------------------
# oracles on plain cases

def check_decode(col, eu, case, sub):
    _set_ambient(case)
    """safe_decode: str unchanged; bytes decoded with `incoming`, falling
    back to UTF-8 when that fails."""
    x, inc, err = _arg(case), case['incoming'], case['errors']
    call = 'safe_decode(%r, incoming=%r, errors=%r)' % (x, inc, err)
    got = _run(eu.safe_decode, x, incoming=inc, errors=err)
    cls = []
    if isinstance(x, str):
        want = x
        cls.append('str-identity')
    else:
        try:
            want = x.decode(inc, err)
            cls.append('decoded-with-incoming')
        except UnicodeDecodeError:
            try:
                want = x.decode('utf-8', err)
                cls.append('utf8-fallback')
            except UnicodeDecodeError:
                _weak(col, sub, 'neither incoming nor utf-8 decodes', got,
                      str, case, call)
                return ['undecodable']
    if got[0] != 'ok' or type(got[1]) is not str or got[1] != want:
        raise Violation(sub, '%s %s, expected %r' % (call, _show(got), want),
                        case)
    return cls


def check_encode_str(col, eu, case, sub):
    _set_ambient(case)
    """safe_encode(str): bytes in `encoding`; safe_decode(..., incoming=
    encoding) gives the text back when the codec is bijective on it."""
    t, inc, enc, err = case['text'], case['incoming'], case['encoding'], \
        case['errors']
    call = 'safe_encode(%r, incoming=%r, encoding=%r, errors=%r)' \
        % (t, inc, enc, err)
    got = _run(eu.safe_encode, t, incoming=inc, encoding=enc, errors=err)
    try:
        want = t.encode(enc, err)
    except UnicodeEncodeError:
        _weak(col, sub, 'text not representable in encoding (strict)', got,
              bytes, case, call)
        return ['unrepresentable']
    if got[0] != 'ok' or type(got[1]) is not bytes or got[1] != want:
        raise Violation(sub, '%s %s, expected %r' % (call, _show(got), want),
                        case)
    cls = ['encoded']
    try:
        bijective = t.encode(enc).decode(enc) == t
    except UnicodeError:
        bijective = False
    if bijective:
        back_inc = case.get('decode_incoming', enc)
        back = _run(eu.safe_decode, got[1], incoming=back_inc, errors=err)
        if back[0] != 'ok' or type(back[1]) is not str or back[1] != t:
            raise Violation(sub, 'round trip: safe_decode(%s -> %r, incoming='
                            '%r) %s, expected the text back'
                            % (call, got[1], back_inc, _show(back)), case)
        cls.append('round-trip')
    else:
        cls.append('lossy-or-non-bijective')
    return cls


def check_encode_bytes(col, eu, case, sub):
    _set_ambient(case)
    """safe_encode(bytes): untouched when the two names agree (case-
    insensitively), else transcoded from `incoming` to `encoding`."""
    b, inc, enc, err = _arg(case), case['incoming'], case['encoding'], \
        case['errors']
    call = 'safe_encode(%r, incoming=%r, encoding=%r, errors=%r)' \
        % (b, inc, enc, err)
    got = _run(eu.safe_encode, b, incoming=inc, encoding=enc, errors=err)
    if inc.lower() == enc.lower():
        if got[0] != 'ok' or type(got[1]) is not bytes or got[1] != b:
            raise Violation(sub, '%s %s, expected the bytes untouched '
                            '(names agree)' % (call, _show(got)), case)
        try:
            b.decode(inc)
            return ['names-agree', 'valid-in-codec']
        except UnicodeDecodeError:
            return ['names-agree', 'invalid-in-codec']
    try:
        u = b.decode(inc, err)
    except UnicodeDecodeError:
        _weak(col, sub, 'bytes not decodable with incoming', got, bytes, case,
              call)
        return ['incoming-cannot-decode']
    try:
        want = u.encode(enc, err)
    except UnicodeEncodeError:
        _weak(col, sub, 'decoded text not representable in encoding', got,
              bytes, case, call)
        return ['target-cannot-encode']
    if b == b'' and want != b'':
        if got != ('ok', b'') and got != ('ok', want):
            raise Violation(sub, '%s %s, expected b"" or %r'
                            % (call, _show(got), want), case)
        col.unspec(sub, 'empty bytes to a codec with BOM')
        return ['empty-bom']
    if got[0] != 'ok' or type(got[1]) is not bytes or got[1] != want:
        raise Violation(sub, '%s %s, expected %r (decode with incoming, '
                        'encode with encoding)' % (call, _show(got), want),
                        case)
    return ['transcoded', 'same-codec-alias' if _canon(inc) == _canon(enc)
            else 'different-codecs']


def check_to_utf8(col, eu, case, sub):
    _set_ambient(case)
    x = _arg(case)
    got = _run(eu.to_utf8, x)
    want = x if isinstance(x, bytes) else x.encode('utf-8')
    if got[0] != 'ok' or type(got[1]) is not bytes or got[1] != want:
        raise Violation(sub, 'to_utf8(%r) %s, expected %r'
                        % (x, _show(got), want), case)
    return ['bytes-identity' if isinstance(x, bytes) else 'str-encoded']


class _Opaque:
    def __repr__(self):
        return '<object>'


NONTEXT = {
    'None': lambda: None, 'True': lambda: True, 'False': lambda: False,
    '0': lambda: 0, '1': lambda: 1, '1.5': lambda: 1.5, '1j': lambda: 1j,
    '[]': lambda: [], "['a']": lambda: ['a'], '{}': lambda: {},
    "('foo', 'bar')": lambda: ('foo', 'bar'), 'set()': lambda: set(),
    "bytearray(b'abc')": lambda: bytearray(b'abc'),
    "memoryview(b'abc')": lambda: memoryview(b'abc'),
    'object()': lambda: _Opaque(), 'str (the type)': lambda: str,
}
TYPE_FUNCS = ('safe_decode', 'safe_encode', 'to_utf8', 'to_slug')


def check_typeerror(col, eu, su, case, sub):
    value = NONTEXT[case['value']]()
    fn = case['fn']
    if fn == 'safe_decode':
        got = _run(eu.safe_decode, value, incoming=case['incoming'],
                   errors=case['errors'])
    elif fn == 'safe_encode':
        got = _run(eu.safe_encode, value, incoming=case['incoming'],
                   encoding=case['encoding'], errors=case['errors'])
    elif fn == 'to_utf8':
        got = _run(eu.to_utf8, value)
    else:
        got = _run(su.to_slug, value, incoming=case['incoming'],
                   errors=case['errors'])
    if got[0] != 'exc' or not isinstance(got[1], TypeError):
        raise Violation(sub, '%s(%s) %s, expected TypeError'
                        % (fn, case['value'], _show(got)), case)
    return [fn]


_SLUG_OK = re.compile(r'[a-z0-9_-]*\Z')


def check_slug(col, su, case, sub):
    _set_ambient(case)
    x, inc, err = _arg(case), case['incoming'], case['errors']
    call = 'to_slug(%r, incoming=%r, errors=%r)' % (x, inc, err)
    got = _run(su.to_slug, x, incoming=inc, errors=err)
    if got[0] == 'exc':
        if isinstance(x, bytes) and isinstance(got[1], UnicodeDecodeError):
            try:
                x.decode(inc, err)
            except UnicodeDecodeError:
                try:
                    x.decode('utf-8', err)
                except UnicodeDecodeError:
                    col.unspec(sub, 'undecodable bytes')
                    return ['undecodable']
        raise Violation(sub, '%s %s' % (call, _show(got)), case)
    s = got[1]
    if type(s) is not str or not _SLUG_OK.match(s) or '--' in s:
        raise Violation(sub, '%s returned %r: not made of lowercase ASCII '
                        'letters, digits, underscores and single hyphens'
                        % (call, s), case)
    again = _run(su.to_slug, s, incoming=inc, errors=err)
    if again != ('ok', s):
        raise Violation(sub, 'not idempotent: %s = %r but to_slug of that %s'
                        % (call, s, _show(again)), case)
    cls = ['empty-slug' if s == '' else 'slug']
    if '-' in s:
        cls.append('has-hyphen')
    if 'words' in case:
        want = '-'.join(case['words']).lower()
        want = ''.join(c for c in want if c.isalnum() or c in '_-')
        if s != want:
            raise Violation(sub, '%s returned %r, expected %r (lowercase '
                            'words joined by single hyphens)'
                            % (call, s, want), case)
        cls.append('ascii-words')
    return cls


# --------------------------------------------------------------------------
# generators

@functools.lru_cache(maxsize=None)
def _st_codec(st, only=None):
    names = list(only or CODECS)
    return st.sampled_from(names).flatmap(
        lambda c: st.tuples(st.just(c), st.sampled_from(CODECS[c])))


@functools.lru_cache(maxsize=None)
def _st_text_for(st, codec, max_size=10):
    if codec in UTF_FAMILY:
        return st.one_of(
            st.text(max_size=max_size),
            st.text(st.sampled_from(
                'aZ09 -_\xe9\xdf\u0416\u4e2d\xa5\u203e\u0301\u20ac'
                '\U0001f600\U0001d4b3\ufeff\ufffd'), max_size=max_size))
    return st.text(st.sampled_from(legacy_alphabet(codec)),
                   max_size=max_size)


def _cls_common(case, x):
    out = []
    out.append('errors=' + case['errors'])
    if 'incoming' in case:
        out.append('incoming~' + _canon(case['incoming']))
    if 'encoding' in case:
        out.append('encoding~' + _canon(case['encoding']))
    out.append('non-ascii' if _nonascii(x) else 'ascii-only')
    return out


def _nontrivial(case, x):
    if _nonascii(x):
        return True
    names = [case[k] for k in ('incoming', 'encoding') if k in case]
    if any(_canon(n) != 'utf-8' for n in names):
        return True
    return isinstance(x, bytes) and len(set(names)) > 1


def _key(fam, case):
    return (fam, case.get('text'), case.get('hex'), case.get('incoming'),
            case.get('encoding'), case.get('errors'),
            case.get('decode_incoming'))


def decode_search(col, seed, max_examples):
    st = hypmemo.strategies()
    from oslo_utils import encodeutils as eu
    check_codec_table()
    sub = 'decode'
    errors = st.sampled_from(('strict', 'strict') + ERRORS)

    @st.composite
    def cases(draw):
        canon, sp = draw(_st_codec(st))
        kind = draw(st.sampled_from(['str', 'valid', 'valid', 'utf8-bytes',
                                     'utf8-bytes', 'other-codec', 'binary']))
        case = {'fam': 'decode', 'incoming': sp, 'errors': draw(errors),
                'kind': kind}
        if kind == 'str':
            case['text'] = draw(st.text(max_size=10))
        elif kind == 'valid':
            t = draw(_st_text_for(st, canon))
            case['hex'] = t.encode(canon).hex()
        elif kind == 'utf8-bytes':
            t = draw(st.text(max_size=8)) + draw(st.sampled_from(
                '\xe9\xf1\u0416\u4e2d\u20ac\U0001f600'))
            case['hex'] = t.encode('utf-8').hex()
        elif kind == 'other-codec':
            c2, _ = draw(_st_codec(st))
            case['hex'] = draw(_st_text_for(st, c2)).encode(c2).hex()
        else:
            case['hex'] = draw(st.binary(max_size=10)).hex()
        return case

    def oracle(col, case):
        cls = check_decode(col, eu, case, sub)
        x = _arg(case)
        col.case(sub, _key('decode', case), _nontrivial(case, x),
                 cls + ['kind=' + case['kind']] + _cls_common(case, x),
                 _sample(case))

    hypmemo.search(col, cases(), oracle, seed, max_examples)


def _sample(case):
    s = dict(case)
    if 'hex' in s:
        s['bytes'] = repr(bytes.fromhex(s['hex']))
    return s


def encode_str_search(col, seed, max_examples):
    st = hypmemo.strategies()
    from oslo_utils import encodeutils as eu
    check_codec_table()
    sub = 'encode-str'
    errors = st.sampled_from(('strict', 'strict') + ERRORS)

    @st.composite
    def cases(draw):
        canon, sp = draw(_st_codec(st))
        if draw(st.integers(0, 5)) == 0:
            t = draw(st.text(max_size=10))      # maybe not representable
        else:
            t = draw(_st_text_for(st, canon))
        return {'fam': 'encode-str', 'text': t, 'encoding': sp,
                'incoming': draw(_st_codec(st))[1],
                'decode_incoming': draw(st.sampled_from(CODECS[canon])),
                'errors': draw(errors)}

    def oracle(col, case):
        cls = check_encode_str(col, eu, case, sub)
        col.case(sub, _key('encode-str', case),
                 _nontrivial(case, case['text']),
                 cls + _cls_common(case, case['text']), case)

    hypmemo.search(col, cases(), oracle, seed, max_examples)


def encode_bytes_search(col, seed, max_examples):
    st = hypmemo.strategies()
    from oslo_utils import encodeutils as eu
    check_codec_table()
    sub = 'encode-bytes'
    errors = st.sampled_from(('strict', 'strict') + ERRORS)

    def recase(s, how):
        return {0: s, 1: s.upper(), 2: s.lower(), 3: s.swapcase(),
                4: s.title()}[how]

    @st.composite
    def cases(draw):
        kind = draw(st.sampled_from(['same-name', 'same-ci', 'same-ci',
                                     'alias', 'transcode', 'transcode',
                                     'garbage']))
        c1, sp1 = draw(_st_codec(st))
        if kind in ('same-name', 'same-ci'):
            inc = sp1
            enc = sp1 if kind == 'same-name' else \
                recase(sp1, draw(st.integers(1, 4)))
            if draw(st.booleans()):
                inc, enc = enc, inc
            if draw(st.booleans()):
                b = draw(st.binary(max_size=10))
            else:
                b = draw(_st_text_for(st, c1)).encode(c1)
        elif kind == 'alias':
            inc, enc = sp1, draw(st.sampled_from(CODECS[c1]))
            b = draw(_st_text_for(st, c1)).encode(c1)
        elif kind == 'transcode':
            c2, enc = draw(_st_codec(st))
            inc = sp1
            # text both codecs can hold, most of the time
            t = draw(st.one_of(
                st.text(st.sampled_from('abcXYZ 019-_~'), max_size=8),
                _st_text_for(st, c1), _st_text_for(st, c2)))
            try:
                b = t.encode(c1)
            except UnicodeEncodeError:
                b = t.encode(c1, 'ignore')
        else:
            _c2, enc = draw(_st_codec(st))
            inc = sp1
            b = draw(st.binary(max_size=10))
        return {'fam': 'encode-bytes', 'hex': b.hex(), 'incoming': inc,
                'encoding': enc, 'errors': draw(errors), 'kind': kind}

    def oracle(col, case):
        cls = check_encode_bytes(col, eu, case, sub)
        b = _arg(case)
        col.case(sub, _key('encode-bytes', case), _nontrivial(case, b),
                 cls + ['kind=' + case['kind']] + _cls_common(case, b),
                 _sample(case))

    hypmemo.search(col, cases(), oracle, seed, max_examples)


def to_utf8_search(col, seed, max_examples):
    st = hypmemo.strategies()
    from oslo_utils import encodeutils as eu
    sub = 'to_utf8'

    cases = st.one_of(
        st.text(max_size=12).map(lambda t: {'fam': 'to_utf8', 'text': t}),
        _st_text_for(st, 'utf-8', 12).map(
            lambda t: {'fam': 'to_utf8', 'text': t}),
        st.binary(max_size=12).map(
            lambda b: {'fam': 'to_utf8', 'hex': b.hex()}),
        st.text(max_size=8).map(
            lambda t: {'fam': 'to_utf8', 'hex': t.encode('utf-16').hex()}))

    def oracle(col, case):
        cls = check_to_utf8(col, eu, case, sub)
        x = _arg(case)
        col.case(sub, _key('to_utf8', case), _nonascii(x),
                 cls + ['non-ascii' if _nonascii(x) else 'ascii-only'],
                 _sample(case))

    hypmemo.search(col, cases, oracle, seed, max_examples)


def typeerror_table(col):
    from oslo_utils import encodeutils as eu
    from oslo_utils import strutils as su
    check_codec_table()
    sub = 'typeerror'
    settings = (('utf-8', 'utf-8', 'strict'), ('ascii', 'UTF-8', 'ignore'),
                ('latin-1', 'utf-16', 'replace'))
    for fn in TYPE_FUNCS:
        for name in NONTEXT:
            for inc, enc, err in (settings if fn != 'to_utf8'
                                  else settings[:1]):
                case = {'fam': 'typeerror', 'fn': fn, 'value': name,
                        'incoming': inc, 'encoding': enc, 'errors': err}
                cls = check_typeerror(col, eu, su, case, sub)
                col.case(sub, (fn, name, inc, enc, err), True,
                         cls + ['value=' + name], case)
    col.exhaustive[sub] = True


_PUNCT = '!"#$%&\'()*+,./:;<=>?@[\\]^`{|}~'


def slug_search(col, seed, max_examples):
    st = hypmemo.strategies()
    from oslo_utils import strutils as su
    check_codec_table()
    sub = 'slug'
    errors = st.sampled_from(('strict', 'strict') + ERRORS)
    soup = st.text(st.sampled_from(
        'abcXYZ019_' + '----    \t\n' + _PUNCT + '\x00\x1c\x1f\x7f\x85\xa0'
        '\xe9\xc5\xdf\u0131\u0130\ufb01\xbd\u2460\u2002\u2014\u2010\u2212'
        '\uff0d\u3000\u0301\u0416\u4e2d\U0001d4b3\U0001f600'), max_size=14)
    word = st.text(st.sampled_from('abcdeXYZ0189_'), min_size=1, max_size=5)
    pword = st.tuples(st.text(st.sampled_from(_PUNCT), max_size=2), word,
                      st.text(st.sampled_from(_PUNCT), max_size=2),
                      st.one_of(st.just(''), word)).map(''.join)
    sep = st.text(st.sampled_from('  -\t'), min_size=1, max_size=3)
    blank = st.text(st.sampled_from(' \t\n'), max_size=2)

    @st.composite
    def cases(draw):
        kind = draw(st.sampled_from(['unicode', 'unicode', 'soup', 'soup',
                                     'soup', 'words', 'bytes']))
        _c, inc = draw(_st_codec(st))
        case = {'fam': 'slug', 'incoming': inc, 'errors': draw(errors),
                'kind': kind}
        if kind == 'unicode':
            case['text'] = draw(st.text(max_size=14))
        elif kind == 'soup':
            case['text'] = draw(soup)
        elif kind == 'words':
            ws = draw(st.lists(st.one_of(word, word, pword), min_size=1,
                               max_size=5))
            out = draw(blank) + ws[0]
            for w in ws[1:]:
                out += draw(sep) + w
            case['text'] = out + draw(blank)
            # the reference strips the punctuation itself
            case['words'] = ws
        else:
            c, sp = draw(_st_codec(st))
            case['incoming'] = sp
            if draw(st.booleans()):
                t = draw(st.one_of(_st_text_for(st, c), soup))
                try:
                    case['hex'] = t.encode(c).hex()
                except UnicodeEncodeError:
                    case['hex'] = t.encode(c, 'ignore').hex()
            else:
                case['hex'] = draw(st.binary(max_size=10)).hex()
        return case

    def oracle(col, case):
        cls = check_slug(col, su, case, sub)
        x = _arg(case)
        col.case(sub, _key('slug', case), _nonascii(x) or 'words' in case or
                 case['kind'] == 'soup',
                 cls + ['kind=' + case['kind'],
                        'non-ascii' if _nonascii(x) else 'ascii-only'],
                 _sample(case))

    hypmemo.search(col, cases(), oracle, seed, max_examples)


def fixed_points(col):
    """A small table of cases every run must contain (one per clause)."""
    from oslo_utils import encodeutils as eu
    from oslo_utils import strutils as su
    check_codec_table()
    sub = 'table'
    nino = 'ni\xf1o'
    table = [
        ('decode', {'text': nino, 'incoming': 'ascii', 'errors': 'strict'}),
        ('decode', {'hex': nino.encode('utf-8').hex(), 'incoming': 'utf-8',
                    'errors': 'strict'}),
        ('decode', {'hex': nino.encode('utf-8').hex(), 'incoming': 'ascii',
                    'errors': 'strict'}),
        ('decode', {'hex': nino.encode('utf-8').hex(), 'incoming': 'UTF-16',
                    'errors': 'strict'}),
        ('decode', {'hex': 'c0', 'incoming': 'iso-8859-1',
                    'errors': 'strict'}),
        ('decode', {'hex': '80737472616e6765', 'incoming': 'utf-8',
                    'errors': 'ignore'}),
        ('decode', {'hex': '80737472616e6765', 'incoming': 'ascii',
                    'errors': 'replace'}),
        ('encode-str', {'text': nino, 'incoming': 'utf-8',
                        'encoding': 'ISO-8859-1', 'errors': 'strict'}),
        ('encode-str', {'text': '中文', 'incoming': 'utf-8',
                        'encoding': 'Big5', 'decode_incoming': 'big5',
                        'errors': 'strict'}),
        ('encode-str', {'text': '\xa5100', 'incoming': 'utf-8',
                        'encoding': 'shift_jis', 'errors': 'strict'}),
        ('encode-str', {'text': nino, 'incoming': 'utf-8',
                        'encoding': 'ascii', 'errors': 'replace'}),
        ('encode-bytes', {'hex': 'ff00fe', 'incoming': 'UTF-8',
                          'encoding': 'utf-8', 'errors': 'strict'}),
        ('encode-bytes', {'hex': 'ff00fe', 'incoming': 'utf-8',
                          'encoding': 'UTF-8', 'errors': 'strict'}),
        ('encode-bytes', {'hex': nino.encode('utf-8').hex(),
                          'incoming': 'utf-8', 'encoding': 'latin-1',
                          'errors': 'strict'}),
        ('encode-bytes', {'hex': nino.encode('latin-1').hex(),
                          'incoming': 'Latin-1', 'encoding': 'UTF-8',
                          'errors': 'strict'}),
        ('encode-bytes', {'hex': '', 'incoming': 'utf-8',
                          'encoding': 'utf-16', 'errors': 'strict'}),
        ('to_utf8', {'text': 'a\xe9\xff€'}),
        ('to_utf8', {'hex': '61e9ff'}),
        ('slug', {'text': 'Ma-any\t spa--ce- es', 'incoming': 'utf-8',
                  'errors': 'strict', 'words': ['Ma', 'any', 'spa', 'ce',
                                                'es']}),
        ('slug', {'text': ' Two  Words ', 'incoming': 'utf-8',
                  'errors': 'strict', 'words': ['Two', 'Words']}),
        ('slug', {'text': 'exc!amation! &ampser$and', 'incoming': 'utf-8',
                  'errors': 'strict', 'words': ['exc!amation!',
                                                '&ampser$and']}),
        ('slug', {'text': ' strip - ', 'incoming': 'utf-8',
                  'errors': 'strict'}),
        ('slug', {'hex': 'perch\xe9'.encode('utf-8').hex(),
                  'incoming': 'utf-8', 'errors': 'strict'}),
        ('slug', {'text': 'a -- b — c', 'incoming': 'utf-8',
                  'errors': 'strict'}),
    ]
    # pure-ASCII text in codecs that are NOT supersets of ASCII: every
    # byte is below 0x80, the text is plain, and still the bytes have to be
    # transcoded (wide and 7-bit stateful codecs, with and without BOM)
    import codecs
    for inc in ('utf-16-le', 'UTF-16LE', 'utf-16-be', 'utf-32-le',
                'utf-32-be', 'utf-16', 'utf-32', 'utf-7', 'hz',
                'iso2022_jp', 'iso2022_kr', 'cp037', 'cp500'):
        try:
            codecs.lookup(inc)
        except LookupError:
            continue
        for text in ('hi', 'A', '0', 'plain ascii text', '+-', '~{', 'a+b~c',
                     'x' * 64):
            try:
                raw = text.encode(inc)
            except UnicodeEncodeError:
                continue
            for enc in ('utf-8', 'UTF8', 'latin-1', 'ascii', 'utf-16-le'):
                table.append(('encode-bytes', {
                    'hex': raw.hex(), 'incoming': inc, 'encoding': enc,
                    'errors': 'strict'}))
            table.append(('decode', {'hex': raw.hex(), 'incoming': inc,
                                     'errors': 'strict'}))
    for fam, case in table:
        case['fam'] = fam
        cls = _dispatch(col, eu, su, case, sub)
        col.case(sub, _key(fam, case), True, [fam] + cls, _sample(case))
    col.exhaustive[sub] = True


def _dispatch(col, eu, su, case, sub):
    fam = case['fam']
    if fam == 'decode':
        return check_decode(col, eu, case, sub)
    if fam == 'encode-str':
        return check_encode_str(col, eu, case, sub)
    if fam == 'encode-bytes':
        return check_encode_bytes(col, eu, case, sub)
    if fam == 'to_utf8':
        return check_to_utf8(col, eu, case, sub)
    if fam == 'typeerror':
        return check_typeerror(col, eu, su, case, sub)
    if fam == 'slug':
        return check_slug(col, su, case, sub)
    raise core.HarnessError('unknown case family %r' % (fam,))


# --------------------------------------------------------------------------

def slug_codepoints(col, lo, hi):
    """Exhaustive: every Unicode code point (surrogates excepted) on its own
    and embedded in a word: alphabet, single hyphens, idempotence."""
    from oslo_utils import strutils as su
    sub = 'slug/codepoints'
    n = 0
    for cp in range(lo, hi):
        if 0xD800 <= cp <= 0xDFFF:
            continue
        ch = chr(cp)
        for text in (ch, 'ab' + ch + 'cd', 'A ' + ch + '-' + ch + ' z'):
            case = {'text': text, 'incoming': 'utf-8', 'errors': 'strict',
                    'ambient': None}
            check_slug(col, su, case, sub)
            n += 1
    col.count(sub, n - 1, 'plane=%d' % (lo >> 16))
    col.distinct_extra += n - 1
    col.case(sub, ('cp', lo, hi), True, 'sample',
             {'codepoints': [lo, hi], 'forms_per_codepoint': 3})
    col.exhaustive.setdefault(sub, True)


def tasks(tier, seed):
    q = tier == 'quick'
    out = [Task('typeerror', typeerror_table), Task('table', fixed_points)]
    # assigned planes densely, the rest of the code space in the thorough tier
    step = 0x2000
    top = 0x30000 if q else 0x110000
    for lo in range(0, top, step):
        out.append(Task('slug/codepoints', slug_codepoints, lo=lo,
                        hi=min(top, lo + step)))
    if q:
        out.append(Task('slug/codepoints', slug_codepoints, lo=0xE0000,
                        hi=0xE0200))
    n = 900 if q else 14000
    fams = (('decode', decode_search, 3), ('encode-str', encode_str_search, 3),
            ('encode-bytes', encode_bytes_search, 3),
            ('to_utf8', to_utf8_search, 1), ('slug', slug_search, 4))
    # interleaved, 14 long searches: all start at once on 16 workers
    for i in range(4):
        for name, fn, shards in fams:
            if i < shards:
                out.append(Task(name, fn,
                                seed=core.derive_seed(seed, ID, name, i),
                                max_examples=n))
    return out


def replay(rec):
    from oslo_utils import encodeutils as eu
    from oslo_utils import strutils as su
    _dispatch(core.Collector(), eu, su, rec['case'], rec.get('sub', 'replay'))
