"""C04 - mask_password hides every supported secret and changes nothing else.

Grammar-based construction: a message is a list of parts - literal neutral
text and *secret items* (key, letter case, digit suffix, rendering, secret
value).  The expected output is known by construction: the same parts with
each secret value replaced by the mask.  Idempotence on the masked message is
checked as a metamorphic relation, and messages built without any sanitize
key must come back unchanged.

The 35 keys are pinned here on purpose: a key silently dropped from
strutils._SANITIZE_KEYS must be noticed.
"""

import os

from vcheck import argtypes
from vcheck import core
from vcheck.core import Task, Violation

ID = 'C04'
LEVEL = 'exploration'
BUDGET = {'quick': 45, 'thorough': 420}
# deterministic sub-checks repeated in a `python -O` child (core.optimized_child)
OPT_SUBS = ('probe', 'pairs')
# sub-checks repeated with str / int arguments as subclass instances
SUBCLASS_SUBS = ('probe', 'pairs#2', 'many')
# documented call interface the generated calls rely on (vcheck/callstyle.py)
INTERFACE = [('oslo_utils.strutils', ['mask_password'])]
# pairs of sampled cases are run against each other under every single
# preemption inside these modules (core.preempt_pair)
PREEMPT_MODULES = ['oslo_utils.strutils']
RULE = ('single: every pinned key (35) x letter case / digit suffix (quick: '
        'lower, aLtErNaTiNg+7; thorough: lower, UPPER, Capitalised, '
        'aLtErNaTiNg, lower+1, UPPER+2024) x every rendering (27 '
        'spellings of key=value bare/quoted, dict/JSON style, XML element, '
        '--key value, key \'value\', list and command forms with a flag) x '
        'every special character the rendering can carry (all ASCII '
        'punctuation except quotes, 30 non-ASCII / astral / combining '
        'characters, 3 alphanumerics) alone and embedded as ab<c>cd, '
        'enumerated exhaustively; compose: Hypothesis messages of 1-3 secret '
        'items with secrets of 1-40 characters over the whole printable '
        'non-space non-quote range (spaces inside quoted/XML renderings), '
        'neutral words and neutral structured text (user=bob, "name": "x", '
        '<id>5</id>) around them, adjacent brackets/commas, 7 masks incl. '
        'the default; nokey: messages without any key (near-miss names in '
        'the same renderings). Oracle: output == parts with every secret '
        'replaced by the mask; mask_password(output) == output; no-key '
        'message unchanged. Non-trivial: the secret contains a character '
        'outside [A-Za-z0-9], or the key is not one of the keys the unit '
        'tests use, or the message holds >= 2 secrets; distinct by the whole '
        'case.')
ASSUMPTIONS = [
    'renderings are separated from neighbouring text by whitespace (a bare '
    'value runs to the next whitespace by design), brackets/commas may '
    'touch quoted and XML renderings',
    'a secret never contains a quote character; XML text cannot carry "<"; '
    'a "--key value" secret cannot start with "=" (that spelling is the '
    '"--key = value" rendering); the same holds after a command flag that '
    'is itself "--<key>"',
    'masks are words without quotes or whitespace; backslashes and group '
    'references in a mask are plain characters',
    'neutral text contains no sanitize key (checked against the pinned list '
    'and the live list), no "--", and no word starting with "-"',
    'after a dict/JSON-style rendering no quote character occurs later in '
    'the message while finding fe_json_then_quote is open',
    'secrets and neutral words containing the text of a sanitize key are '
    'not generated (the key scan would see a second, unintended item)',
]

PINNED_KEYS = (
    'adminpass', 'admin_pass', 'password', 'admin_password', 'auth_token',
    'new_pass', 'auth_password', 'secret_uuid', 'secret', 'sys_pswd', 'token',
    'configdrive', 'chappassword', 'encrypted_key', 'private_key',
    'fernetkey', 'sslkey', 'passphrase', 'cephclusterfsid',
    'octaviaheartbeatkey', 'rabbitcookie', 'cephmanilaclientkey',
    'pacemakerremoteauthkey', 'designaterndckey', 'cephadminkey',
    'heatauthencryptionkey', 'cephclientkey', 'keystonecredential',
    'barbicansimplecryptokek', 'cephrgwkey', 'swifthashsuffix',
    'migrationsshkey', 'cephmdskey', 'cephmonkey', 'chapsecret')
assert len(PINNED_KEYS) == 35 and len(set(PINNED_KEYS)) == 35

# keys that appear in the payloads of the repository's unit tests
SUITE_KEYS = frozenset((
    'adminpass', 'admin_pass', 'password', 'admin_password', 'auth_password',
    'secret_uuid', 'token', 'fernetkey', 'sslkey', 'passphrase',
    'keystonecredential'))

MASKS = (None, '***', '???', '****', '<hidden>', 'XXX', '[masked]',
         # the mask is data: backslashes and group references in it are not
         # instructions to the regex engine
         'C:\\masked', '\\1', '\\g<0>', '[\\hidden]', 'x\\', '\\n')
CASES = ('lower', 'upper', 'capital', 'alternating')

FD_CARET = 'fd_bare_caret'
FD_EQ = 'fd_ddash_equals'
FE = 'fe_json_then_quote'


def apply_case(key, case):
    if case == 'upper':
        return key.upper()
    if case == 'capital':
        return key.capitalize()
    if case == 'alternating':
        return ''.join(c.upper() if i % 2 else c for i, c in enumerate(key))
    return key


# name -> (pre, post, value class, dict/JSON style)
# {k} = key as spelled, {p} = neutral prefix, {f} = flag
# value classes: bare   [^\s'"]+   (until the next whitespace)
#                ddash  as bare, and the value cannot start with '='
#                token  \S+ without quotes
#                quoted anything but the two quote characters
#                xml    anything but '<' (and, by the statement, quotes)
RENDERINGS = {
    'eq': ('{k}=', '', 'bare', False),
    'eq_sp': ('{k} = ', '', 'bare', False),
    'eq_lsp': ('{k} =', '', 'bare', False),
    'eq_rsp': ('{k}=   ', '', 'bare', False),
    'eq_sq': ("{k}='", "'", 'quoted', False),
    'eq_dq': ('{k}="', '"', 'quoted', False),
    'eq_sp_sq': ("{k} = '", "'", 'quoted', False),
    'eq_sp_dq': ('{k} = "', '"', 'quoted', False),
    'eq_prefix': ('{p}{k}=', '', 'bare', False),
    'eq_prefix_sp': ('{p}{k} = ', '', 'bare', False),
    'eq_prefix_sq': ("{p}{k}='", "'", 'quoted', False),
    'eq_prefix_dq': ('{p}{k} = "', '"', 'quoted', False),
    'json_sq': ("'{k}': '", "'", 'quoted', True),
    'json_dq': ('"{k}": "', '"', 'quoted', True),
    'json_tight': ("'{k}':'", "'", 'quoted', True),
    'json_wide': ("'{k}'  :   '", "'", 'quoted', True),
    'json_u': ("'{k}' : u'", "'", 'quoted', True),
    'json_prefix': ("'{p}{k}': '", "'", 'quoted', True),
    'json_prefix_dq': ('"{p}{k}" : "', '"', 'quoted', True),
    'xml': ('<{k}>', '</{k}>', 'xml', False),
    'ddash': ('--{k} ', '', 'ddash', False),
    'ddash_dq': ('--{k} "', '"', 'quoted', False),
    'ddash_eq_dq': ('--{k} = "', '"', 'quoted', False),
    'ddash_eq_sq': ("--{k} = '", "'", 'quoted', False),
    'ddash_eq': ('--{k} = ', '', 'bare', False),
    'sp_sq': ("{k} '", "'", 'quoted', False),
    'sp_dq': ('{k} "', '"', 'quoted', False),
    'list_v': ("'{p}{k}','{f}','", "'", 'quoted', False),
    'list_flag': ("'{p}{k}', '{f}', '", "'", 'quoted', False),
    'list_u': ("'{p}{k}', '{f}', u'", "'", 'quoted', False),
    'cmd': ('{p}{k} {f} ', '', 'token', False),
}
RNAMES = tuple(RENDERINGS)
QUOTE_FREE = tuple(n for n, r in RENDERINGS.items()
                   if "'" not in r[0] and '"' not in r[0])
# prefixes put directly in front of a key; besides neutral ones, heads of
# *other* sanitize keys, so that prefix+key contains an overlapping second
# key that starts earlier (new_ + password, admin + password, chap + secret,
# admin_ + passphrase, ...)
PREFIXES = ('', 'node.session.auth.', 'original_', 'ipmi_', 'x.', 'new_',
            'admin', 'admin_', 'auth_', 'chap', 'secret_', 'sys_', 'db_')
# a flag is one or two dashes and a name of ASCII letters and underscores
# (what the key-flag-value patterns accept)
FLAGS = ('-v', '--flag', '--password', '-p', '--new_value', '--from_env',
         '-o_value', '--Value', '-V', '--x', '--_')
PADS = ('', ' ', '\n      ', '\t')


def render(item):
    """-> (text before the value, the value as it stands in the message,
    text after the value)"""
    pre, post, cls, _json = RENDERINGS[item['r']]
    k = apply_case(item['key'], item['case']) + item.get('digits', '')
    fmt = {'k': k, 'p': item.get('prefix', ''), 'f': item.get('flag', '-v')}
    value = item['secret']
    if cls in ('quoted', 'xml'):
        pad = item.get('pad') or ['', '']
        value = pad[0] + value + pad[1]
    return pre.format(**fmt), value, post.format(**fmt)


def build(case):
    """-> (message, expected) for the mask of the case"""
    mask = case.get('mask')
    mask = '***' if mask is None else mask
    msg = []
    exp = []
    for part in case['parts']:
        if isinstance(part, str):
            msg.append(part)
            exp.append(part)
        else:
            pre, value, post = render(part)
            msg.append(pre + value + post)
            exp.append(pre + mask + post)
    return ''.join(msg), ''.join(exp)


def findings_of(case):
    """Names of the recorded findings whose input class this case is in."""
    out = set()
    parts = case['parts']
    for i, part in enumerate(parts):
        if isinstance(part, str):
            continue
        _pre, _post, cls, json_style = RENDERINGS[part['r']]
        sec = part['secret']
        if cls in ('bare', 'ddash') and '^' in sec:
            out.add(FD_CARET)
        if cls == 'ddash' and '=' in sec[1:]:
            out.add(FD_EQ)
        if json_style:
            later = render(part)[2][1:]
            for q in parts[i + 1:]:
                later += q if isinstance(q, str) else ''.join(render(q))
            if "'" in later or '"' in later:
                out.add(FE)
    return out


def call_mask(strutils, message, mask):
    message = argtypes.maybe(message)
    if mask is None:
        return strutils.mask_password(message)
    return strutils.mask_password(message, argtypes.maybe(mask))


def check_message(case, sub):
    """The oracle for one constructed message (no Hypothesis involved)."""
    from oslo_utils import strutils
    message, expected = build(case)
    mask = case.get('mask')
    try:
        got = call_mask(strutils, message, mask)
    except Exception as e:
        raise Violation(sub, 'mask_password(%r) raised %r' % (message, e),
                        case)
    if got != expected:
        leaked = [p['secret'] for p in case['parts']
                  if not isinstance(p, str) and p['secret'] in got
                  and p['secret'] not in expected]
        what = 'secret %r still readable' % (leaked[0],) if leaked else \
            'text other than the secret changed'
        raise Violation(sub, '%s: mask_password(%r) = %r, expected %r'
                        % (what, message, got, expected), case)
    try:
        again = call_mask(strutils, got, mask)
    except Exception as e:
        raise Violation(sub, 'second pass raised %r on %r' % (e, got), case)
    if again != got:
        raise Violation(sub, 'not idempotent: %r -> %r -> %r'
                        % (message, got, again), case)
    return message


def all_keys():
    """pinned list united with the live list (an upstream addition must not
    raise an alarm in the no-key clause)"""
    from oslo_utils import strutils
    live = getattr(strutils, '_SANITIZE_KEYS', None) or ()
    return tuple(PINNED_KEYS) + tuple(
        k for k in live if isinstance(k, str) and k not in PINNED_KEYS)


def has_key(text, keys):
    low = text.lower()
    return any(k in low for k in keys)


# --------------------------------------------------------------------------
# which recorded findings are still present on this tree?  While a probe
# still fails, its input class is routed away from the search; once it is
# repaired the class is searched like any other.

PROBES = {
    FD_CARET: [
        {'mask': None, 'parts': [
            {'key': 'password', 'case': 'lower', 'r': 'eq',
             'secret': 'ab^cd'}]},
        {'mask': None, 'parts': [
            {'key': 'password', 'case': 'lower', 'r': 'ddash',
             'secret': 'ab^cd'}]},
        {'mask': None, 'parts': [
            {'key': 'password', 'case': 'lower', 'r': 'eq', 'secret': '^'}]},
    ],
    FD_EQ: [
        {'mask': None, 'parts': [
            {'key': 'password', 'case': 'lower', 'r': 'ddash',
             'secret': 'ab=cd'}]},
    ],
    FE: [
        {'mask': None, 'parts': [
            '{', {'key': 'password', 'case': 'lower', 'r': 'json_sq',
                  'secret': 'abc'}, ", 'user': 'bob'}"]},
    ],
}


def still_failing():
    out = set()
    # diagnostic switch: VERIF_NO_ROUTE=all (or a comma list of finding
    # names) searches the classes of recorded findings too, to re-find and
    # minimise them
    unroute = set(filter(None, os.environ.get('VERIF_NO_ROUTE', '')
                         .split(',')))
    for name, cases in PROBES.items():
        if name in unroute or unroute & {'all', '1'}:
            continue
        for case in cases:
            try:
                check_message(case, 'probe')
            except Violation:
                out.add(name)
                break
    return out


def _registered(name):
    return any(e.get('status') == 'open' and e.get('match') == name
               for e in core.load_known_findings(ID))


def probe_known(col):
    sub = 'probe'
    for name in sorted(PROBES):
        for case in PROBES[name]:
            try:
                check_message(case, sub)
            except Violation as v:
                col.case(sub, repr(case), True, name + '/still_fails', case)
                if _registered(name):
                    col.fail(v)
                else:
                    col.known(sub, name + ' (probe still fails; entry not '
                              'registered in known_findings.json yet, see '
                              'proposed/)')
                    col.notes.append('unregistered finding %s: %s'
                                     % (name, v.msg[:300]))
            else:
                col.case(sub, repr(case), True, name + '/repaired', case)


def _known_pred(name):
    def pred(rec):
        case = rec.get('case') or {}
        return 'parts' in case and name in findings_of(case)
    return pred


KNOWN = {FD_CARET: _known_pred(FD_CARET), FD_EQ: _known_pred(FD_EQ),
         FE: _known_pred(FE)}


# --------------------------------------------------------------------------
# single: keys x cases x renderings x characters, exhaustive

ASCII_SPECIAL = tuple(chr(c) for c in range(0x21, 0x7f)
                      if not chr(c).isalnum() and chr(c) not in '\'"')
NON_ASCII = tuple('éßØЖλאع中日'
                  'あ한ก́​‍€£·'
                  '№ſKİ­﻿＝＾'
                  '\U0001f600\U0001d518\U00020000\U000e0041')
ALNUM = ('a', 'Z', '0')
SINGLE_CHARS = ASCII_SPECIAL + NON_ASCII + ALNUM
assert all(not c.isspace() for c in SINGLE_CHARS)


def key_flag(flag):
    """a flag that is itself '--<sanitize key>' (the unit tests use
    'node.session.auth.password --password v')"""
    return bool(flag) and flag.startswith('--') and \
        flag[2:].lower() in PINNED_KEYS


def can_carry(cls, secret, flag=None):
    if "'" in secret or '"' in secret or not secret:
        return False
    if cls == 'xml':
        return '<' not in secret
    if cls in ('bare', 'ddash', 'token'):
        if any(c.isspace() for c in secret):
            return False
        # '--key = value' is a rendering of its own: after '--key ' a value
        # cannot start with '=' (also when '--key' is the flag of a command
        # rendering)
        if secret[0] == '=' and (cls == 'ddash' or
                                 (cls == 'token' and key_flag(flag))):
            return False
    return True


def single_table(col, key, variants):
    sub = 'single'
    routed = still_failing()
    n = 0
    nontrivial = 0
    for case_name, digits in variants:
        for rname in RNAMES:
            cls = RENDERINGS[rname][2]
            for ci, ch in enumerate(SINGLE_CHARS):
                for form in (ch, 'ab' + ch + 'cd'):
                    item = {'key': key, 'case': case_name, 'digits': digits,
                            'r': rname, 'secret': form}
                    if '{p}' in RENDERINGS[rname][0]:
                        item['prefix'] = PREFIXES[1 + ci % (len(PREFIXES)
                                                            - 1)]
                    if '{f}' in RENDERINGS[rname][0]:
                        item['flag'] = FLAGS[(ci + len(form)) % len(FLAGS)]
                    if not can_carry(cls, form, item.get('flag')):
                        continue
                    case = {'mask': None, 'parts': ['ctx ', item, ' tail']}
                    hit = findings_of(case) & routed
                    if hit:
                        for h in sorted(hit):
                            col.known(sub, h)
                        continue
                    check_message(case, sub)
                    n += 1
                    if not ch.isalnum() or key not in SUITE_KEYS:
                        nontrivial += 1
                    if ci == (len(key) + len(rname)) % len(SINGLE_CHARS) \
                            and form == ch and case_name == 'lower':
                        col.case(sub, repr(case), True,
                                 ['r=' + rname, 'class=' + cls], case)
                        n -= 1
                        nontrivial -= 1
        if col.out_of_time():
            col.exhaustive[sub] = False
            break
    else:
        col.exhaustive.setdefault(sub, True)
    col.count(sub, n, 'enumerated')
    col.distinct_extra += nontrivial


def many_table(col):
    """One key, one rendering, many secrets in one message (listings of
    users, tokens, options): 19, 40 and 130 items, every one masked."""
    sub = 'many'
    routed = still_failing()
    for ri, rname in enumerate(RNAMES):
        cls = RENDERINGS[rname][2]
        key = PINNED_KEYS[(ri * 3) % len(PINNED_KEYS)]
        for count in (19, 40, 130):
            parts = ['listing: ']
            for i in range(count):
                item = {'key': key, 'case': 'lower', 'r': rname,
                        'secret': 'S%03dx+Zq' % i}
                if '{p}' in RENDERINGS[rname][0]:
                    item['prefix'] = 'x.'
                if '{f}' in RENDERINGS[rname][0]:
                    item['flag'] = '-v'
                parts.append(item)
                parts.append(' ; ' if i % 2 else '\n')
            case = {'mask': None, 'parts': parts}
            hit = findings_of(case) & routed
            if hit:
                for h in sorted(hit):
                    col.known(sub, h)
                continue
            check_message(case, sub)
            col.case(sub, (rname, key, count), True,
                     ['r=' + rname, 'class=' + cls, 'items=%d' % count],
                     {'rendering': rname, 'key': key, 'items': count})
    col.exhaustive.setdefault(sub, False)


# --------------------------------------------------------------------------
# compose: Hypothesis messages

WORDS = ('ctx', 'user', 'bob', 'id', '42', 'mysqld', 'test', 'body:',
         'nomask', 'passwd', 'tok', 'secre', 'pass_word', 'key', 'admin',
         'auth', 'GET', '/v2.1/servers', 'status:', '200', 'DEBUG',
         '[req-70a599e0-31e7]', 'pass', 'word', 'Token', 'sslke', 'keys:',
         'a.b.c', '100%', '$HOME', 'x^y', 'été', '中文',
         'pw', 'Secre_t', 'chap', 'fernet')
NEUTRAL_QUOTE_FREE = ('user=bob', 'name = x', '<id>5</id>', '<name>bob</name>',
                      'retries=3', 'region=RegionOne', 'x.user -v bob')
NEUTRAL_QUOTED = ("user='bob'", 'name="x y"', "'user': 'bob'",
                  '"project": "demo"', "{'a': 1}", "'x','-v','y'",
                  'key="My Server Name"', "u'id': u'5'")
SEPARATORS = (' ', '  ', '\n', '\t', ' \n  ', '\r\n')
OPENERS = ('', '', '', '{', '(', '[', '{ ', 'Namespace(', 'body: {')
CLOSERS = ('', '', '', '}', ')', ']', ',', ';', ' }', '},', '.')


class Codes:
    """Cursor over a byte string (codes are 0 once it is exhausted): the
    raw material Hypothesis generates and shrinks; everything else is a
    deterministic decoding, which keeps generation cheap."""

    def __init__(self, codes):
        self.codes = codes
        self.i = 0

    def next(self):
        # three bytes of the generated byte string per code
        i = self.i
        self.i += 3
        chunk = self.codes[i:i + 3]
        return int.from_bytes(chunk, 'big') if chunk else 0

    def pick(self, seq):
        return seq[self.next() % len(seq)]


_ALNUM_POOL = 'abcxyzABC0189'
_INNER_SPACE = (' ', ' ', '\t', '\n', '\u3000')


def _char(code, spaces_ok):
    kind = code % 8
    v = code // 8
    if kind <= 1:
        return ASCII_SPECIAL[v % len(ASCII_SPECIAL)]
    if kind == 2:
        return NON_ASCII[v % len(NON_ASCII)]
    if kind == 3:
        return _ALNUM_POOL[v % len(_ALNUM_POOL)]
    if kind == 4 and spaces_ok:
        return _INNER_SPACE[v % len(_INNER_SPACE)]
    if kind <= 5:
        return ASCII_SPECIAL[v % len(ASCII_SPECIAL)]
    # any code point that is printable, not a space and not a quote
    cp = v % 0x30000        # BMP, SMP, SIP
    c = chr(cp)
    import unicodedata
    if c in '\'"' or c.isspace() or \
            unicodedata.category(c) in ('Cs', 'Cc', 'Cn', 'Co'):
        return ASCII_SPECIAL[v % len(ASCII_SPECIAL)]
    return c


def decode_secret(cur, cls, keys, flag=None):
    """A secret of 1..40 characters that rendering class `cls` can carry and
    that does not spell a sanitize key."""
    spaces_ok = cls in ('quoted', 'xml')
    n = 1 + cur.next() % 40
    # short secrets are far more likely: lengths above 12 only when the
    # length code is large
    if n > 12 and cur.next() % 3:
        n = 1 + n % 12
    chars = []
    for _ in range(n):
        c = _char(cur.next(), spaces_ok)
        if cls == 'xml' and c == '<':
            c = '>'
        chars.append(c)
    sec = ''.join(chars)
    if not can_carry(cls, sec, flag) and sec[0] == '=':
        sec = '+' + sec[1:]
    if has_key(sec, keys):
        sec = sec[0] + '#' + '#'.join(sec[1:])
        if has_key(sec, keys):
            sec = '#'
    return sec


_WORD_ALPHABET = ('abcdefghijklmnopqrstuvwxyzABCXYZ0123456789_.:/@#%+~'
                  '!?*&|$^()[]{}-')


def decode_word(cur, keys):
    code = cur.next()
    if code % 3:
        return WORDS[(code // 3) % len(WORDS)]
    n = 1 + (code // 3) % 12
    w = ''.join(_WORD_ALPHABET[cur.next() % len(_WORD_ALPHABET)]
                for _ in range(n))
    w = w.replace('--', '-+').lstrip('-') or 'w'
    if has_key(w, keys):
        w = 'w'
    return w


def decode_neutral(cur, keys, quote_free):
    kind = cur.next() % 6
    if kind <= 3:
        return decode_word(cur, keys)
    if kind == 4 or quote_free:
        return cur.pick(NEUTRAL_QUOTE_FREE)
    return cur.pick(NEUTRAL_QUOTED)


def decode_item(cur, keys, quote_free):
    rname = cur.pick(QUOTE_FREE if quote_free else RNAMES)
    pre, _post, cls, _json = RENDERINGS[rname]
    it = {'key': cur.pick(PINNED_KEYS), 'case': cur.pick(CASES),
          'digits': cur.pick(('', '', '', '1', '07', '2024')), 'r': rname}
    if '{p}' in pre:
        it['prefix'] = cur.pick(PREFIXES)
    if '{f}' in pre:
        it['flag'] = cur.pick(FLAGS)
    if cls in ('quoted', 'xml') and cur.next() % 4 == 0:
        it['pad'] = [cur.pick(PADS), cur.pick(PADS)]
    it['secret'] = decode_secret(cur, cls, keys, it.get('flag'))
    return it


def decode_message(codes, keys, routed):
    cur = Codes(codes)
    mask = cur.pick(MASKS)
    n_items = cur.pick((1, 1, 2, 2, 3))
    parts = []
    quote_free = False
    for i in range(n_items):
        for _ in range(cur.next() % 3):
            parts.append(decode_neutral(cur, keys, quote_free))
            parts.append(cur.pick(SEPARATORS))
        it = decode_item(cur, keys, quote_free)
        cls = RENDERINGS[it['r']][2]
        opener = cur.pick(OPENERS)
        if opener:
            parts.append(opener)
        parts.append(it)
        if cls in ('quoted', 'xml'):
            closer = cur.pick(CLOSERS)
            if closer:
                parts.append(closer)
        if RENDERINGS[it['r']][3] and FE in routed:
            # recorded finding: no quote character may follow a dict/JSON
            # style rendering
            quote_free = True
        if i + 1 < n_items:
            parts.append(cur.pick(SEPARATORS))
    for _ in range(cur.next() % 3):
        parts.append(cur.pick(SEPARATORS))
        parts.append(decode_neutral(cur, keys, quote_free))
    return {'mask': mask, 'parts': parts}


def codes_strategy():
    from hypothesis import strategies as st
    return st.binary(min_size=90, max_size=600)


def classes_of(case):
    items = [p for p in case['parts'] if not isinstance(p, str)]
    cls = ['items=%d' % len(items), 'mask=%s' % (case.get('mask'),)]
    for it in items:
        cls.append('r=' + it['r'])
        cls.append('case=' + it['case'])
        s = it['secret']
        if any(ord(c) > 127 for c in s):
            cls.append('secret:non_ascii')
        if any(ord(c) > 0xffff for c in s):
            cls.append('secret:astral')
        if any(c in s for c in '\\$%.*+?()[]{}|^'):
            cls.append('secret:regex_meta')
        if any(c.isspace() for c in s):
            cls.append('secret:inner_space')
        if len(s) >= 20:
            cls.append('secret:len>=20')
        if it.get('digits'):
            cls.append('key:digits')
        if it.get('pad') and (it['pad'][0] or it['pad'][1]):
            cls.append('padded')
    if any(isinstance(p, str) and ("'" in p or '"' in p)
           for p in case['parts']):
        cls.append('context:quoted')
    nontrivial = len(items) >= 2 or any(
        not it['secret'].isalnum() or not it['secret'].isascii()
        or it['key'] not in SUITE_KEYS for it in items)
    return nontrivial, sorted(set(cls))


def compose_random(col, seed, max_examples):
    sub = 'compose'
    keys = all_keys()
    routed = still_failing()

    def oracle(col, codes):
        case = decode_message(codes, keys, routed)
        hit = findings_of(case) & routed
        if hit:
            for h in sorted(hit):
                col.known(sub, h)
            return
        # the neutral text must really be neutral
        neutral = ''.join(p if isinstance(p, str) else ' '
                          for p in case['parts'])
        if has_key(neutral, keys):
            col.unspec(sub, 'neutral text spells a key across parts')
            return
        check_message(case, sub)
        nontrivial, cls = classes_of(case)
        col.case(sub, repr(case), nontrivial, cls, case)

    core.run_given(col, codes_strategy(), oracle, seed, max_examples)


# --------------------------------------------------------------------------
# nokey: messages without any sanitize key come back unchanged

NEAR_MISS = ('passwd', 'tok', 'secre', 'pass_word', 'user', 'pw', 'sslke',
             'admin_pas', 'auth_toke', 'pass-word', 'pässword',
             'paſſword', 'toKen', 'secr3t', 'name', 'key',
             'configdriv', 'chap', 'private-key', 'passphras')


def decode_nokey(codes, keys):
    cur = Codes(codes)
    mask = cur.pick(MASKS)
    parts = []
    for _ in range(1 + cur.next() % 4):
        kind = cur.next() % 4
        if kind == 0:
            parts.append(decode_word(cur, keys))
        elif kind == 1:
            parts.append(cur.pick(NEUTRAL_QUOTE_FREE + NEUTRAL_QUOTED))
        else:
            rname = cur.pick(RNAMES)
            pre, post, cls, _j = RENDERINGS[rname]
            fmt = {'k': cur.pick(NEAR_MISS) + cur.pick(('', '', '1')),
                   'p': cur.pick(PREFIXES),
                   'f': cur.pick(('-v', '--flag', '-p'))}
            parts.append(pre.format(**fmt) + decode_secret(cur, cls, keys)
                         + post.format(**fmt))
        parts.append(cur.pick(SEPARATORS))
    return {'nokey': ''.join(parts), 'mask': mask}


def nokey_random(col, seed, max_examples):
    from oslo_utils import strutils
    sub = 'nokey'
    keys = all_keys()

    def oracle(col, codes):
        case = decode_nokey(codes, keys)
        if has_key(case['nokey'], keys):
            col.unspec(sub, 'generated text spells a key')
            return
        nokey_case(strutils, case, sub)
        col.case(sub, repr(case), any(c in case['nokey'] for c in '=\'"<-'),
                 ['mask=%s' % (case['mask'],)], case)

    core.run_given(col, codes_strategy(), oracle, seed, max_examples)


def nokey_case(strutils, case, sub):
    msg = case['nokey']
    try:
        got = call_mask(strutils, msg, case.get('mask'))
    except Exception as e:
        raise Violation(sub, 'mask_password(%r) raised %r' % (msg, e), case)
    if got != msg:
        raise Violation(sub, 'message without any sanitize key was changed: '
                        '%r -> %r' % (msg, got), case)


# --------------------------------------------------------------------------

def pairs_table(col, key):
    """Every ordered pair of renderings in one message, separated by neutral
    text: once with the same key twice, once with two different keys."""
    sub = 'pairs'
    routed = still_failing()
    other = PINNED_KEYS[(PINNED_KEYS.index(key) + 7) % len(PINNED_KEYS)]
    n = 0
    for r1 in RNAMES:
        for r2 in RNAMES:
            for k2, case2 in ((key, 'lower'), (key, 'upper'), (other, 'lower')):
                items = []
                for rn, kk, cc, sec in ((r1, key, 'lower', 'Sec!1x'),
                                        (r2, k2, case2, 'oth3r#Z')):
                    it = {'key': kk, 'case': cc, 'r': rn, 'secret': sec}
                    if '{p}' in RENDERINGS[rn][0]:
                        it['prefix'] = 'original_'
                    if '{f}' in RENDERINGS[rn][0]:
                        it['flag'] = '-v'
                    items.append(it)
                case = {'mask': None,
                        'parts': ['ctx ', items[0], ' mid word ', items[1],
                                  ' tail']}
                hit = findings_of(case) & routed
                if hit:
                    for h in sorted(hit):
                        col.known(sub, h)
                    continue
                check_message(case, sub)
                n += 1
    col.count(sub, n - 1, 'key=' + key)
    col.distinct_extra += n - 1
    col.case(sub, ('pairs', key), True, 'sample', case)
    col.exhaustive.setdefault(sub, True)


def first_use_threads(col, trials, nthreads=8):
    """Schedules: the first use of a key in a process, by several threads
    at once.  The module is re-imported (importlib.reload) so that whatever
    it builds lazily is built again, then `nthreads` threads released by a
    barrier each mask their own rendering of the same key; every result is
    judged by the ordinary oracle.  The interpreter's thread switch interval
    is lowered so that the threads really interleave."""
    import importlib
    import sys
    import threading
    from oslo_utils import strutils
    sub = 'threads'
    rnames = [r for r in RNAMES]
    saved = sys.getswitchinterval()
    sys.setswitchinterval(1e-6)
    try:
        for t in range(trials):
            importlib.reload(strutils)
            key = PINNED_KEYS[(t * 7) % len(PINNED_KEYS)]
            cases = []
            for i in range(nthreads):
                r = rnames[(t * nthreads + i * 5) % len(rnames)]
                item = {'key': key, 'case': 'lower', 'r': r,
                        'secret': 'hunter2+Zq%d' % i}
                if '{f}' in RENDERINGS[r][0]:
                    item['flag'] = '-v'
                if '{p}' in RENDERINGS[r][0]:
                    item['prefix'] = 'x.'
                cases.append({'mask': None, 'threads': nthreads, 'trial': t,
                              'parts': ['ctx ', item, ' tail']})
            barrier = threading.Barrier(nthreads)
            failures = [None] * nthreads

            def work(i):
                barrier.wait()
                try:
                    check_message(cases[i], sub)
                except Violation as v:
                    failures[i] = v
                except BaseException as e:     # harness trouble
                    failures[i] = e

            ths = [threading.Thread(target=work, args=(i,))
                   for i in range(nthreads)]
            for th in ths:
                th.start()
            for th in ths:
                th.join()
            for i, f in enumerate(failures):
                col.case(sub, (t, i), True,
                         'first-use/' + RENDERINGS[cases[i]['parts'][1]['r']][2],
                         cases[i])
                if isinstance(f, Violation):
                    raise f
                if f is not None:
                    raise core.HarnessError('thread %d: %r' % (i, f))
    finally:
        sys.setswitchinterval(saved)
        importlib.reload(strutils)
    col.exhaustive.setdefault(sub, False)


def tasks(tier, seed):
    out = [Task('probe', probe_known), Task('many', many_table),
           Task('threads', first_use_threads,
                trials=12 if tier == 'quick' else 120)]
    for key in (PINNED_KEYS if tier == 'thorough' else PINNED_KEYS[::5]):
        out.append(Task('pairs', pairs_table, key=key))
    if tier == 'quick':
        variants = (('lower', ''), ('alternating', '7'))
        shards, examples, nshards, nexamples = 12, 2500, 2, 2500
    else:
        variants = (('lower', ''), ('upper', ''), ('capital', ''),
                    ('alternating', ''), ('lower', '1'), ('upper', '2024'))
        shards, examples, nshards, nexamples = 16, 25000, 4, 20000
    for key in PINNED_KEYS:
        out.append(Task('single', single_table, key=key, variants=variants))
    for s in range(nshards):
        out.append(Task('nokey', nokey_random,
                        seed=core.derive_seed(seed, ID, 'nokey', s),
                        max_examples=nexamples))
    for s in range(shards):
        out.append(Task('compose', compose_random,
                        seed=core.derive_seed(seed, ID, 'compose', s),
                        max_examples=examples))
    return out


def replay(rec):
    case = rec['case']
    sub = rec.get('sub', 'replay')
    if case.get('threads'):
        first_use_threads(core.Collector(), trials=case['trial'] + 1,
                          nthreads=case['threads'])
    elif 'parts' in case:
        check_message(case, sub)
    elif 'nokey' in case:
        from oslo_utils import strutils
        nokey_case(strutils, case, sub)
    else:
        raise core.HarnessError('cannot replay %r' % (case,))
