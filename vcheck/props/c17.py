"""C17 - version helpers preserve ordering and PEP 440 semantics.

Round trip + order isomorphism for the radix-1000 conversions (exhaustive over
the boundary set, random otherwise) and an independent PEP 440 ordering key,
written from the PEP text, as the oracle for is_compatible and
VersionPredicate.  packaging.version is *not* the oracle; one sub-check
compares the key with it and reports a disagreement as a harness error.
"""

import functools
import itertools
import re

from vcheck import argtypes
from vcheck import core
from vcheck import hypmemo
from vcheck.core import Task, Violation

ID = 'C17'
LEVEL = 'exploration'
BUDGET = {'quick': 45, 'thorough': 420}
# deterministic sub-checks repeated in a `python -O` child (core.optimized_child)
OPT_SUBS = ('conv/exhaustive', 'compat/chain', 'predicate/table', 'conv/suffix', 'predicate/malformed')
# sub-checks repeated with str / int arguments as subclass instances
SUBCLASS_SUBS = ('conv/exhaustive', 'compat/chain', 'predicate/table', 'conv/suffix', 'predicate/malformed')
# documented call interface the generated calls rely on (vcheck/callstyle.py)
INTERFACE = [('oslo_utils.versionutils', None)]
RULE = ('conv/*: every component tuple of length 1..5 over {0,1,9,10,99,100,'
        '999} with a non-zero head (exhaustive: round trip for str and tuple '
        'input, convert_version_to_tuple, and strict monotonicity of the '
        'integers along the lexicographically sorted tuples of each length, '
        'which is order isomorphism on the whole family), Hypothesis pairs of '
        'equal-length tuples over boundary + random 0..999 components (second '
        'tuple a one-component neighbour of the first half of the time), '
        'a1/alpha2/b3/beta4/rc5 suffixes on the last component, and '
        'non-numeric components (letters, empty, punctuation, suffix on a '
        'non-final component) expecting ValueError. compat/predicate: PEP 440 '
        'versions generated as structures (epoch, release 1..4, pre, post, '
        'dev) and rendered with alternative spellings (v prefix, alpha/beta/'
        'c/pre/preview, rev/r, implicit post "-N", separators . - _, implicit '
        '0, upper case, leading zeros, outer whitespace); the second version '
        'of a pair is usually a neighbour of the first (only pre/post/dev/'
        'epoch/trailing zeros/one segment changed). Oracle: own PEP 440 key '
        'on the structure. Predicates: 1..3 comparisons over the six '
        'operators with optional blanks; malformed predicates from a table x '
        'valid context. Non-trivial: tuple containing 0 or 999 or of length '
        '>= 3; '
        'version pair with equal zero-stripped release or differing major; '
        'predicate with >= 2 comparisons or a candidate equal/adjacent to a '
        'bound; every malformed/invalid string. Distinct by argument tuple.')
ASSUMPTIONS = [
    'PEP 440 ordering as written in the PEP: epoch, release compared with '
    'trailing zeros ignored, X.devN < X.aN < X.bN < X.rcN < X < X.postN, a '
    '.devN below and a .postN above the version it is attached to',
    'local version labels (+abc) are outside the quantifier and not generated',
    'components with blanks, signs, underscores or non-ASCII digits (accepted '
    'by int()) and digit-less suffixes ("1.2rc") are the unspecified zone '
    'and are not generated / not judged',
    'a malformed predicate may be rejected at construction or at the first '
    'satisfied_by call',
]


BOUNDARY = (0, 1, 9, 10, 99, 100, 999)
SUFFIXES = ('a', 'alpha', 'b', 'beta', 'rc')


# --------------------------------------------------------------------------
# conversions

def _dotted(t):
    return '.'.join(str(c) for c in t)


def _nontrivial_tuple(t):
    return len(t) >= 3 or 0 in t or 999 in t


def _call(fn, *a):
    try:
        return ('ok', fn(*argtypes.maybe_all(a)))
    except ValueError:
        return ('ValueError', None)
    except Exception as e:
        return (type(e).__name__, str(e)[:120])


def check_roundtrip(vu, t, sub):
    """str(int(v)) == v for str and tuple input; to_tuple agrees."""
    t = tuple(t)
    s = _dotted(t)
    case = {'kind': 'roundtrip', 'v': list(t)}
    r_s = _call(vu.convert_version_to_int, s)
    r_t = _call(vu.convert_version_to_int, t)
    if r_s[0] != 'ok' or r_t[0] != 'ok':
        raise Violation(sub, 'convert_version_to_int(%r) -> %r, (%r) -> %r'
                        % (s, r_s, t, r_t), case)
    if r_s[1] != r_t[1] or not isinstance(r_s[1], int) \
            or isinstance(r_s[1], bool):
        raise Violation(sub, 'convert_version_to_int: str input %r gives %r, '
                        'tuple input gives %r' % (s, r_s[1], r_t[1]), case)
    back = _call(vu.convert_version_to_str, r_s[1])
    if back != ('ok', s):
        raise Violation(sub, 'convert_version_to_str(convert_version_to_int('
                        '%r)=%r) -> %r' % (s, r_s[1], back), case)
    tup = _call(vu.convert_version_to_tuple, s)
    if tup != ('ok', t):
        raise Violation(sub, 'convert_version_to_tuple(%r) -> %r'
                        % (s, tup), case)
    return r_s[1]


def check_order(vu, a, b, sub, ia=None, ib=None):
    """Equal lengths: int(a) < int(b) <=> tuple(a) < tuple(b)."""
    a, b = tuple(a), tuple(b)
    if ia is None:
        ia = vu.convert_version_to_int(_dotted(a))
    if ib is None:
        ib = vu.convert_version_to_int(b)
    if ((ia < ib) != (a < b)) or ((ia == ib) != (a == b)):
        raise Violation(sub, 'order not preserved: %r -> %r, %r -> %r'
                        % (a, ia, b, ib),
                        {'kind': 'order', 'a': list(a), 'b': list(b)})


def conv_exhaustive(col):
    from oslo_utils import versionutils as vu
    sub = 'conv/exhaustive'
    for length in range(1, 6):
        n = nt = sampled = 0
        prev = prev_i = None
        # itertools.product over a sorted alphabet yields tuples in
        # lexicographic order
        for t in itertools.product(BOUNDARY, repeat=length):
            if t[0] == 0:
                continue
            i = check_roundtrip(vu, t, sub)
            if prev is not None:
                check_order(vu, prev, t, sub, prev_i, i)
            prev, prev_i = t, i
            if sampled < 2:
                sampled += 1
                col.case(sub, t, _nontrivial_tuple(t), 'len%d' % length,
                         {'v': _dotted(t), 'int': i})
                continue
            n += 1
            if _nontrivial_tuple(t):
                nt += 1
        col.count(sub, n, 'len%d' % length)
        col.distinct_extra += nt
    col.exhaustive[sub] = True


@functools.lru_cache(maxsize=None)
def _st_component(st):
    return st.one_of(st.sampled_from(BOUNDARY), st.integers(0, 999))


@functools.lru_cache(maxsize=None)
def _st_tuple(st, min_size=1, max_size=5):
    comp = _st_component(st)
    head = comp.filter(lambda c: c != 0)
    return st.tuples(head, st.lists(comp, min_size=min_size - 1,
                                    max_size=max_size - 1)).map(
        lambda ht: (ht[0],) + tuple(ht[1]))


def conv_random(col, seed, max_examples):
    st = hypmemo.strategies()
    from oslo_utils import versionutils as vu
    sub = 'conv/random'

    @st.composite
    def pairs(draw):
        a = draw(_st_tuple(st, 1, 6))
        if draw(st.booleans()):
            # neighbour: one component replaced / nudged
            i = draw(st.integers(0, len(a) - 1))
            lo = 1 if i == 0 else 0
            c = draw(st.one_of(
                st.sampled_from([a[i] - 1, a[i] + 1, 0, 999, a[i]]),
                _st_component(st)))
            c = min(999, max(lo, c))
            b = a[:i] + (c,) + a[i + 1:]
        else:
            b = draw(_st_tuple(st, len(a), len(a)))
        return (a, b)

    def oracle(col, ab):
        a, b = ab
        ia = check_roundtrip(vu, a, sub)
        ib = check_roundtrip(vu, b, sub)
        check_order(vu, a, b, sub, ia, ib)
        cls = ['len%d' % len(a)]
        if a == b:
            cls.append('equal')
        elif sum(x != y for x, y in zip(a, b)) == 1:
            cls.append('one-component-apart')
        col.case(sub, (a, b), _nontrivial_tuple(a) or _nontrivial_tuple(b),
                 cls, {'a': _dotted(a), 'b': _dotted(b), 'ia': ia, 'ib': ib})

    hypmemo.search(col, pairs(), oracle, seed, max_examples)


_SUFFIX_LAST = re.compile(r'\d+(a|alpha|b|beta|rc)\d*\Z')


def check_suffix(vu, t, suffix, digits, sub):
    t = tuple(t)
    s = _dotted(t) + suffix + digits
    case = {'kind': 'suffix', 'v': list(t), 'suffix': suffix,
            'digits': digits}
    want = vu.convert_version_to_int(_dotted(t))
    got = _call(vu.convert_version_to_int, s)
    if got != ('ok', want):
        raise Violation(sub, 'convert_version_to_int(%r) -> %r, expected %r '
                        '(suffix ignored)' % (s, got, want), case)
    got = _call(vu.convert_version_to_tuple, s)
    if got != ('ok', t):
        raise Violation(sub, 'convert_version_to_tuple(%r) -> %r, expected '
                        '%r' % (s, got, t), case)


def check_invalid(vu, s, sub):
    case = {'kind': 'invalid', 's': s}
    for name in ('convert_version_to_int', 'convert_version_to_tuple'):
        got = _call(getattr(vu, name), s)
        if got[0] != 'ValueError':
            raise Violation(sub, '%s(%r) -> %r, expected ValueError'
                            % (name, s, got), case)


def _must_raise(parts):
    """True when the dotted string certainly has a non-numeric component and
    none of its components lies in the unspecified zone."""
    bad = False
    for i, p in enumerate(parts):
        if p.isascii() and p.isdigit():
            continue
        if i == len(parts) - 1:
            if re.match(r'\d+(a|alpha|b|beta|rc)\d+\Z', p):
                continue        # proper suffix on the last component: valid
            if _SUFFIX_LAST.match(p):
                return False    # digit-less suffix ("2rc"): unspecified
        if p == '':
            bad = True
            continue
        if not p.isascii() or re.search(r'[\s_]', p) or p[0] in '+-':
            return False        # int()-lenient spellings: unspecified
        bad = True
    return bad


BAD_TOKENS = ('', 'x', 'abc', 'rc1', 'a', 'beta', '1x', 'x1', '1rc', '9a',
              '1rc1', '2alpha3', '10b4', '1a1b2', '1e3', 'inf', 'nan', '0x10',
              '1-2', '1/2', '1,2', '3*', '4~', '1:0', 'dev', '1dev1',
              '1post2', 'RC', 'v1', 'one')


def conv_suffix_invalid(col, seed, max_examples):
    st = hypmemo.strategies()
    from oslo_utils import versionutils as vu

    # --- suffixes on the last component: table first, then random
    sub = 'conv/suffix'
    for t in ((1,), (1, 0), (1, 2, 3), (999, 999), (10, 0, 0, 999),
              (1, 0, 0, 0, 0)):
        for sfx in SUFFIXES:
            for digits in ('0', '1', '5', '12', '007', '999'):
                check_suffix(vu, t, sfx, digits, sub)
                col.case(sub, (t, sfx, digits), True, sfx,
                         {'s': _dotted(t) + sfx + digits})

    def o_suffix(col, c):
        t, sfx, digits = c
        check_suffix(vu, t, sfx, digits, sub)
        col.case(sub, c, True, sfx, {'s': _dotted(t) + sfx + digits})

    hypmemo.search(col, st.tuples(_st_tuple(st), st.sampled_from(SUFFIXES),
                       st.one_of(st.integers(0, 9999).map(str),
                                 st.text('0123456789', min_size=1,
                                         max_size=6))),
        o_suffix, seed, max_examples)

    # --- non-numeric components
    sub = 'conv/invalid'

    def o_invalid(col, c):
        t, i, tok = c
        parts = [str(x) for x in t]
        i = i % (len(parts) + 1)
        if i == len(parts):
            parts.append(tok)           # appended as a new last component
        else:
            parts[i] = tok
        if not _must_raise(parts):
            col.unspec(sub, 'suffix-like or int()-lenient spelling')
            return
        s = '.'.join(parts)
        check_invalid(vu, s, sub)
        last = i >= len(parts) - 1
        cls = ['empty' if tok == '' else
               'suffix-not-last' if re.match(r'\d+(a|alpha|b|beta|rc)\d+\Z',
                                             tok) else
               'letters' if re.search('[A-Za-z]', tok) else 'punct',
               'last' if last else 'inner']
        col.case(sub, s, True, cls, {'s': s})

    letters = st.text('abcdefghijklmnopqrstuvwxyzABCRXZ', min_size=1,
                      max_size=5)
    digits = st.text('0123456789', min_size=0, max_size=3)
    tok = st.one_of(
        st.sampled_from(BAD_TOKENS),
        st.tuples(digits, letters, digits).map(''.join),
        st.tuples(st.text('0123456789', min_size=1, max_size=3),
                  st.sampled_from(SUFFIXES),
                  st.text('0123456789', min_size=1, max_size=3)).map(''.join))
    hypmemo.search(col, st.tuples(_st_tuple(st, 1, 4), st.integers(0, 5), tok),
                   o_invalid, seed + 1, max_examples)
    # whole-string table (no context)
    for s in ('', '.', '..', '1.', '.1', '1..2', 'a', 'a.b', '1.2.x', 'x.1',
              '1.2rc1.3', '1alpha1.0', '1.2-3', 'v1.2', '1.2.3dev',
              '1.2.3.post1', '1,2', '1.2beta1x'):
        if not _must_raise(s.split('.')):
            raise core.HarnessError('table entry %r not certainly invalid'
                                    % s)
        check_invalid(vu, s, sub)
        col.case(sub, s, True, 'table', {'s': s})


# --------------------------------------------------------------------------
# PEP 440: structured versions, rendering, independent ordering key
#
# A version is (epoch, release, pre, post, dev) with release a tuple of
# ints, pre = None | (letter, n) with letter in a/b/rc, post/dev = None | n.

PRE_RANK = {'a': 0, 'b': 1, 'rc': 2}
PRE_SPELL = {'a': ('a', 'alpha', 'A', 'Alpha', 'ALPHA'),
             'b': ('b', 'beta', 'B', 'BETA'),
             'rc': ('rc', 'c', 'pre', 'preview', 'RC', 'C')}
POST_SPELL = ('post', 'rev', 'r', 'POST', 'Rev')
SEPS = ('', '.', '-', '_')


def norm_version(v):
    epoch, release, pre, post, dev = v
    return (int(epoch), tuple(int(x) for x in release),
            None if pre is None else (str(pre[0]), int(pre[1])),
            None if post is None else int(post),
            None if dev is None else int(dev))


def pep440_key(v):
    """Ordering key written from PEP 440 ("Summary of permitted suffixes and
    relative ordering"): epoch first; then the release segment compared as if
    padded with zeros; within one release
        X.devN < X.aN < X.bN < X.rcN < X < X.postN
    and, attached to any of those, ".devM" sorts just below and ".postM"
    just above the version it is attached to (a post release's own dev
    release sorts below that post release but above the base)."""
    epoch, release, pre, post, dev = v
    rel = list(release)
    while rel and rel[-1] == 0:
        rel.pop()
    if pre is not None:
        phase = (1 + PRE_RANK[pre[0]], pre[1])       # 1..3
    elif post is None and dev is not None:
        phase = (0, 0)                               # X.devN: before any pre
    else:
        phase = (4, 0)                               # final (or its post)
    post_k = (0, 0) if post is None else (1, post)
    dev_k = (1, 0) if dev is None else (0, dev)
    return (epoch, tuple(rel), phase, post_k, dev_k)


def canonical(v):
    epoch, release, pre, post, dev = v
    s = '%d!' % epoch if epoch else ''
    s += '.'.join(str(x) for x in release)
    if pre is not None:
        s += '%s%d' % pre
    if post is not None:
        s += '.post%d' % post
    if dev is not None:
        s += '.dev%d' % dev
    return s


def render(v, sp):
    """Render with the spelling choices in sp (a list of small ints; the same
    list always gives the same string, so cases stay plain data).  Only
    spellings PEP 440 lists under "Normalization" are used, and an omitted
    (implicit 0) number is never followed by something that would read as
    that number."""
    epoch, release, pre, post, dev = v
    sp = list(sp) + [0] * 24
    out = ['', 'v', 'V', ''][sp[0] % 4]
    if epoch or sp[1] % 5 == 1:
        out += '%d!' % epoch
    segs = [str(x) for x in release]
    if sp[2] % 6 == 1:
        k = sp[3] % len(segs)
        segs[k] = '0' + segs[k]
    out += '.'.join(segs)
    implicit_post = post is not None and sp[8] % 5 == 1
    if pre is not None:
        names = PRE_SPELL[pre[0]]
        out += SEPS[sp[4] % 4] + names[sp[5] % len(names)]
        if not (pre[1] == 0 and sp[6] % 3 == 1 and not implicit_post):
            out += SEPS[sp[7] % 4] + str(pre[1])
    if post is not None:
        if implicit_post:
            out += '-%d' % post                     # implicit post release
        else:
            out += ('.', '', '-', '_')[sp[9] % 4] + \
                POST_SPELL[sp[10] % len(POST_SPELL)]
            if not (post == 0 and sp[11] % 3 == 1):
                out += SEPS[sp[12] % 4] + str(post)
    if dev is not None:
        out += ('.', '', '-', '_')[sp[13] % 4] + \
            ('dev', 'DEV')[sp[14] % 5 == 1]
        if not (dev == 0 and sp[15] % 3 == 1):
            out += SEPS[sp[16] % 4] + str(dev)
    return out


def _pad(s, sp, k=18):
    sp = list(sp) + [0] * 24
    return ('', ' ', '  ', '\t', '')[sp[k] % 5] + s + \
        ('', '', ' ', '\n', ' \t')[sp[k + 1] % 5]


@functools.lru_cache(maxsize=None)
def _st_version(st):
    seg = st.one_of(st.sampled_from([0, 0, 1, 2, 9, 10]), st.integers(0, 2030))
    num = st.one_of(st.sampled_from([0, 1, 2]), st.integers(0, 99))
    opt = lambda s: st.one_of(st.none(), st.none(), s)   # noqa: E731
    return st.tuples(
        st.sampled_from([0, 0, 0, 0, 1, 2]),
        st.lists(seg, min_size=1, max_size=4).map(tuple),
        opt(st.tuples(st.sampled_from(['a', 'b', 'rc']), num)),
        opt(num), opt(num))


def _st_neighbour(st, draw, v):
    """A version close to v: the classes where orderings go wrong."""
    epoch, release, pre, post, dev = v
    num = st.one_of(st.sampled_from([0, 1, 2]), st.integers(0, 99))
    kind = draw(st.sampled_from(
        ['same', 'trail0', 'strip0', 'pre', 'nopre', 'post', 'nopost', 'dev',
         'nodev', 'epoch', 'bump', 'major', 'prenum', 'final']))
    if kind == 'trail0':
        release = release + (0,) * draw(st.integers(1, 2))
    elif kind == 'strip0':
        r = list(release)
        while len(r) > 1 and r[-1] == 0:
            r.pop()
        release = tuple(r)
    elif kind == 'pre':
        pre = (draw(st.sampled_from(['a', 'b', 'rc'])), draw(num))
    elif kind == 'prenum' and pre is not None:
        pre = (pre[0], max(0, pre[1] + draw(st.sampled_from([-1, 1]))))
    elif kind == 'nopre':
        pre = None
    elif kind == 'post':
        post = draw(num)
    elif kind == 'nopost':
        post = None
    elif kind == 'dev':
        dev = draw(num)
    elif kind == 'nodev':
        dev = None
    elif kind == 'epoch':
        epoch = draw(st.sampled_from([0, 1, 2]))
    elif kind == 'bump':
        i = draw(st.integers(0, len(release) - 1))
        r = list(release)
        r[i] = max(0, r[i] + draw(st.sampled_from([-1, 1, 9, -9])))
        release = tuple(r)
    elif kind == 'major':
        release = (max(0, release[0] + draw(st.sampled_from([-1, 1]))),) + \
            release[1:]
    elif kind == 'final':
        pre = post = dev = None
    return (epoch, release, pre, post, dev)


@functools.lru_cache(maxsize=None)
def _st_spelling(st):
    """20 spelling choices from two integer draws (cheap for Hypothesis):
    place i is canonical (0) unless both of its mask bits are set (~25 %),
    then 1..8.  Shrinks towards the canonical rendering."""
    def unpack(ma):
        mask, alt = ma
        return [(((alt >> (3 * i)) & 7) + 1)
                if (mask >> (2 * i)) & 3 == 3 else 0 for i in range(20)]
    return st.tuples(st.integers(0, 2 ** 40 - 1),
                     st.integers(0, 2 ** 60 - 1)).map(unpack)


def _stripped(release):
    r = list(release)
    while r and r[-1] == 0:
        r.pop()
    return tuple(r)


def check_compat(vu, case, sub):
    req = norm_version(case['req'])
    cur = norm_version(case['cur'])
    want = pep440_key(cur) >= pep440_key(req)
    if case['same_major'] and req[1][0] != cur[1][0]:
        want = False
    try:
        got = vu.is_compatible(case['req_s'], case['cur_s'],
                               same_major=case['same_major'])
    except Exception as e:
        raise Violation(sub, 'is_compatible(%r, %r, same_major=%r) raised '
                        '%s: %s' % (case['req_s'], case['cur_s'],
                                    case['same_major'], type(e).__name__, e),
                        case)
    if got is not want:
        raise Violation(sub, 'is_compatible(%r, %r, same_major=%r) -> %r, '
                        'PEP 440 says %r (requested %s, current %s)'
                        % (case['req_s'], case['cur_s'], case['same_major'],
                           got, want, canonical(req), canonical(cur)), case)
    # the documented signature is is_compatible(requested_version,
    # current_version, same_major): the third argument passed positionally
    # is the same call
    try:
        got_pos = vu.is_compatible(case['req_s'], case['cur_s'],
                                   case['same_major'])
    except Exception as e:
        raise Violation(sub, 'is_compatible(%r, %r, %r) [positional] raised '
                        '%s' % (case['req_s'], case['cur_s'],
                                case['same_major'], type(e).__name__), case)
    if got_pos is not want:
        raise Violation(sub, 'is_compatible(%r, %r, %r) [same_major passed '
                        'positionally] -> %r, expected %r'
                        % (case['req_s'], case['cur_s'], case['same_major'],
                           got_pos, want), case)
    if not case['same_major']:
        # default argument is same_major=True: observe it through the public
        # default as well when the majors differ
        return want
    try:
        got_default = vu.is_compatible(case['req_s'], case['cur_s'])
    except Exception as e:
        raise Violation(sub, 'is_compatible(%r, %r) raised %s'
                        % (case['req_s'], case['cur_s'], type(e).__name__),
                        case)
    if got_default is not want:
        raise Violation(sub, 'is_compatible(%r, %r) [default same_major] -> '
                        '%r, expected %r' % (case['req_s'], case['cur_s'],
                                             got_default, want), case)
    return want


def _pair_classes(a, b):
    cls = []
    if pep440_key(a) == pep440_key(b):
        cls.append('equal')
    if _stripped(a[1]) == _stripped(b[1]):
        cls.append('same-release')
        if a[1] != b[1]:
            cls.append('trailing-zeros')
        if a[2] != b[2]:
            cls.append('pre-differs')
        if a[3] != b[3]:
            cls.append('post-differs')
        if a[4] != b[4]:
            cls.append('dev-differs')
    if a[0] != b[0]:
        cls.append('epoch-differs')
    if a[1][0] != b[1][0]:
        cls.append('major-differs')
    return cls or ['unrelated']


def compat(col, seed, max_examples):
    st = hypmemo.strategies()
    from oslo_utils import versionutils as vu
    sub = 'compat'

    @st.composite
    def cases(draw):
        a = draw(_st_version(st))
        if draw(st.integers(0, 9)) < 7:
            b = _st_neighbour(st, draw, a)
        else:
            b = draw(_st_version(st))
        if draw(st.booleans()):
            a, b = b, a
        spa, spb = draw(_st_spelling(st)), draw(_st_spelling(st))
        return {'kind': 'compat', 'req': a, 'cur': b,
                'req_s': _pad(render(a, spa), spa),
                'cur_s': _pad(render(b, spb), spb),
                'same_major': draw(st.booleans())}

    def oracle(col, case):
        want = check_compat(vu, case, sub)
        a, b = norm_version(case['req']), norm_version(case['cur'])
        cls = _pair_classes(a, b)
        nt = 'same-release' in cls or 'major-differs' in cls
        if case['req_s'].strip() != canonical(a) or \
                case['cur_s'].strip() != canonical(b):
            cls.append('alt-spelling')
        cls.append('same_major=%s' % case['same_major'])
        cls.append('result=%s' % want)
        col.case(sub, (case['req_s'], case['cur_s'], case['same_major']), nt,
                 cls, {k: case[k] for k in ('req_s', 'cur_s', 'same_major')})

    hypmemo.search(col, cases(), oracle, seed, max_examples)


def compat_table(col):
    """The ordering chain of PEP 440, every pair, both same_major values."""
    from oslo_utils import versionutils as vu
    sub = 'compat/chain'
    chain = []
    for epoch in (0, 1):
        for release in ((1, 0), (1, 0, 1), (2,)):
            chain.append((epoch, release, None, None, 0))
            chain.append((epoch, release, None, None, 1))
            for letter in ('a', 'b', 'rc'):
                for n in (0, 1):
                    chain.append((epoch, release, (letter, n), None, 0))
                    chain.append((epoch, release, (letter, n), None, None))
                    chain.append((epoch, release, (letter, n), 0, 0))
                    chain.append((epoch, release, (letter, n), 0, None))
            chain.append((epoch, release, None, None, None))
            chain.append((epoch, release, None, 0, 0))
            chain.append((epoch, release, None, 0, None))
            chain.append((epoch, release, None, 1, 1))
            chain.append((epoch, release, None, 1, None))
    # the chain above is written in increasing PEP 440 order: the index is a
    # second, table-style oracle for the key function itself
    for i in range(len(chain) - 1):
        if not pep440_key(chain[i]) < pep440_key(chain[i + 1]):
            raise core.HarnessError('pep440_key not increasing at %r %r'
                                    % (chain[i], chain[i + 1]))
    n = 0
    for i, a in enumerate(chain):
        for j, b in enumerate(chain):
            for sm in (False, True):
                case = {'kind': 'compat', 'req': a, 'cur': b,
                        'req_s': canonical(a), 'cur_s': canonical(b),
                        'same_major': sm}
                check_compat(vu, case, sub)
                n += 1
    col.case(sub, 'chain', True, 'pairs', {'chain_len': len(chain)})
    col.count(sub, n - 1, 'pairs')
    col.distinct_extra += n - 1
    col.exhaustive[sub] = True


def key_selftest(col, seed, max_examples):
    """Guard for the oracle itself: the key must order generated versions as
    packaging does.  A disagreement is a harness error, not a violation."""
    st = hypmemo.strategies()
    import packaging.version as pv

    @st.composite
    def cases(draw):
        a = draw(_st_version(st))
        b = _st_neighbour(st, draw, a) if draw(st.booleans()) else \
            draw(_st_version(st))
        return (a, b, draw(_st_spelling(st)), draw(_st_spelling(st)))

    def oracle(col, c):
        a, b, spa, spb = c
        sa, sb = render(a, spa), render(b, spb)
        try:
            pa, pb = pv.Version(sa), pv.Version(sb)
        except pv.InvalidVersion:
            raise core.HarnessError('rendered version not accepted by '
                                    'packaging: %r / %r' % (sa, sb))
        ka, kb = pep440_key(a), pep440_key(b)
        if (ka < kb) != (pa < pb) or (ka == kb) != (pa == pb) or \
                str(pa) != canonical(a) or pa.major != a[1][0]:
            raise core.HarnessError('own PEP 440 key disagrees with packaging '
                                    'on %r (%r) vs %r (%r)' % (sa, a, sb, b))
        agreed[0] += 1

    agreed = [0]
    hypmemo.search(col, cases(), oracle, seed, max_examples, shrink=False)
    col.notes.append('oracle self-test: own PEP 440 key, rendering and major '
                     'agree with packaging on %d generated pairs' % agreed[0])


# --------------------------------------------------------------------------
# VersionPredicate

OPS = ('<', '<=', '==', '!=', '>=', '>')


def _cmp(op, a, b):
    return {'<': a < b, '<=': a <= b, '==': a == b, '!=': a != b,
            '>=': a >= b, '>': a > b}[op]


def check_predicate(vu, case, sub):
    cand = norm_version(case['cand'])
    want = all(_cmp(op, pep440_key(cand), pep440_key(norm_version(v)))
               for op, v in case['items'])
    try:
        pred = vu.VersionPredicate(case['pred_s'])
        got = pred.satisfied_by(case['cand_s'])
    except Exception as e:
        raise Violation(sub, 'VersionPredicate(%r).satisfied_by(%r) raised '
                        '%s: %s' % (case['pred_s'], case['cand_s'],
                                    type(e).__name__, e), case)
    if got is not want:
        raise Violation(sub, 'VersionPredicate(%r).satisfied_by(%r) -> %r, '
                        'expected %r' % (case['pred_s'], case['cand_s'], got,
                                         want), case)
    # instance isolation / repeatability: other predicates are built and
    # used in between, then the same object is asked again
    try:
        for other in ('>=999.0', '<0.0.1,!=0', '==%s' % case['cand_s']):
            vu.VersionPredicate(other).satisfied_by(case['cand_s'])
        again = pred.satisfied_by(case['cand_s'])
    except Exception as e:
        raise Violation(sub, 'VersionPredicate(%r): second satisfied_by(%r) '
                        'raised %s: %s' % (case['pred_s'], case['cand_s'],
                                           type(e).__name__, e), case)
    if again is not want:
        raise Violation(sub, 'VersionPredicate(%r).satisfied_by(%r) -> %r '
                        'when asked again after other predicates were used, '
                        'expected %r' % (case['pred_s'], case['cand_s'],
                                         again, want), case)
    return want


def predicate(col, seed, max_examples):
    st = hypmemo.strategies()
    from oslo_utils import versionutils as vu
    sub = 'predicate'
    blanks = st.sampled_from(['', '', ' ', '  ', '\t'])

    @st.composite
    def cases(draw):
        cand = draw(_st_version(st))
        n = draw(st.sampled_from([1, 2, 2, 3, 3]))
        items, parts = [], []
        for _ in range(n):
            r = draw(st.integers(0, 9))
            v = cand if r < 2 else _st_neighbour(st, draw, cand) if r < 8 \
                else draw(_st_version(st))
            op = draw(st.sampled_from(OPS))
            sp = draw(_st_spelling(st))
            items.append((op, v))
            parts.append(draw(blanks) + op + draw(blanks) + render(v, sp) +
                         draw(blanks))
        spc = draw(_st_spelling(st))
        return {'kind': 'predicate', 'cand': cand, 'items': items,
                'pred_s': ','.join(parts),
                'cand_s': _pad(render(cand, spc), spc)}

    def oracle(col, case):
        want = check_predicate(vu, case, sub)
        cand = norm_version(case['cand'])
        cls = ['n=%d' % len(case['items']), 'result=%s' % want]
        near = False
        for op, v in case['items']:
            v = norm_version(v)
            if _stripped(v[1]) == _stripped(cand[1]):
                near = True
            if pep440_key(v) == pep440_key(cand):
                cls.append('bound-equal:' + op)
        # which comparisons decide: exactly one false comparison
        fl = [op for op, v in case['items']
              if not _cmp(op, pep440_key(cand), pep440_key(norm_version(v)))]
        if len(case['items']) >= 2 and len(fl) == 1:
            cls.append('single-false-conjunct')
        col.case(sub, (case['pred_s'], case['cand_s']),
                 len(case['items']) >= 2 or near, cls,
                 {'pred_s': case['pred_s'], 'cand_s': case['cand_s']})

    hypmemo.search(col, cases(), oracle, seed, max_examples)


def predicate_table(col):
    """Every operator x (below, equal, equal with trailing zeros, above) and
    every ordered pair of operators around one version."""
    from oslo_utils import versionutils as vu
    sub = 'predicate/table'
    base = (0, (2, 1), None, None, None)
    cands = [(0, (2, 0, 9), None, None, None),
             (0, (2, 1), ('rc', 1), None, None),
             (0, (2, 1), None, None, 0), base,
             (0, (2, 1, 0, 0), None, None, None),
             (0, (2, 1), None, 0, None), (0, (2, 1, 1), None, None, None),
             (1, (0, 1), None, None, None)]
    other = (0, (3,), None, None, None)
    n = 0
    for cand in cands:
        for op1 in OPS:
            for ws in ('', ' '):
                case = {'kind': 'predicate', 'cand': cand,
                        'items': [(op1, base)],
                        'pred_s': ws + op1 + ws + canonical(base) + ws,
                        'cand_s': canonical(cand)}
                check_predicate(vu, case, sub)
                n += 1
            for op2 in OPS:
                for order in (0, 1):
                    items = [(op1, base), (op2, other)]
                    if order:
                        items.reverse()
                    case = {'kind': 'predicate', 'cand': cand, 'items': items,
                            'pred_s': ', '.join(o + canonical(v)
                                                for o, v in items),
                            'cand_s': canonical(cand)}
                    check_predicate(vu, case, sub)
                    n += 1
    col.case(sub, 'table', True, 'ops-x-positions', {'base': canonical(base)})
    col.count(sub, n - 1, 'ops-x-positions')
    col.distinct_extra += n - 1
    col.exhaustive[sub] = True


BAD_OPS = ('', '=>', '=<', '~=', '=', '===', '<>', '><', '!', '=!', '~', '^',
           '<<', '>>', '<==', '>==', '!==', '<=>', 'eq', '> =', '< =', '= =',
           '! =')
BAD_VERSIONS = ('', 'abc', '1.x', '1..2', '.1', '1.', '1.0 2.0', '1.0foo',
                'v', '1!', '!1', '1.0..dev', '1.0-', '1,0', '>1', '1.0 .1')


def check_malformed(vu, s, sub):
    case = {'kind': 'malformed', 'pred_s': s}
    try:
        p = vu.VersionPredicate(s)
        r = p.satisfied_by('1.0')
    except ValueError:
        return
    except Exception as e:
        raise Violation(sub, 'VersionPredicate(%r) raised %s: %s, expected '
                        'ValueError' % (s, type(e).__name__, e), case)
    raise Violation(sub, 'VersionPredicate(%r) accepted (satisfied_by("1.0") '
                    '-> %r), expected ValueError' % (s, r), case)


def malformed(col, seed, max_examples):
    st = hypmemo.strategies()
    from oslo_utils import versionutils as vu
    sub = 'predicate/malformed'
    table = ['', ' ', ',', '>=1.0,', ',>=1.0', '>=1.0,,<2.0', '1.0', 'foo',
             '<> 3.0.0', '>=1.0.0;<2.0.0', '>abc', '>=1.0.0,2.0.0', '>=',
             '== ', '>= 1.0 <2.0', '>=1.0 , <', '=> 1.0', '=< 1.0', '~= 1.0',
             '= 1.0', '=== 1.0', '>=1.0 and <2', '(>=1.0)', 'pkg>=1.0',
             'pkg (>=1.0)', '>=1.0 # c']
    for s in table:
        check_malformed(vu, s, sub)
        col.case(sub, s, True, 'table', {'pred_s': s})
    blanks = st.sampled_from(['', ' ', '\t'])
    good = st.tuples(blanks, st.sampled_from(OPS), blanks,
                     st.sampled_from(['1.0', '2.0.0', '0.9', '1.0rc1',
                                      '3!1.0', '1.0.post1']),
                     blanks).map(''.join)

    @st.composite
    def cases(draw):
        kind = draw(st.sampled_from(['bad-op', 'bad-op', 'bad-version',
                                     'empty-item', 'no-op']))
        if kind == 'bad-op':
            bad = draw(blanks) + draw(st.sampled_from(BAD_OPS[1:])) + \
                draw(blanks) + draw(st.sampled_from(['1.0', '2.0.0'])) + \
                draw(blanks)
        elif kind == 'no-op':
            bad = draw(blanks) + draw(st.sampled_from(['1.0', '2.0.0', '0'])) \
                + draw(blanks)
        elif kind == 'bad-version':
            bad = draw(blanks) + draw(st.sampled_from(OPS)) + draw(blanks) + \
                draw(st.sampled_from(BAD_VERSIONS)) + draw(blanks)
        else:
            bad = draw(blanks)
        before = draw(st.lists(good, max_size=2))
        after = draw(st.lists(good, max_size=2))
        return (kind, ','.join(before + [bad] + after))

    def oracle(col, c):
        kind, s = c
        check_malformed(vu, s, sub)
        pos = 'alone' if ',' not in s else 'in-conjunction'
        col.case(sub, s, True, [kind, pos], {'pred_s': s})

    hypmemo.search(col, cases(), oracle, seed, max_examples)


# --------------------------------------------------------------------------

def tasks(tier, seed):
    q = tier == 'quick'
    # short tasks first; then at most 13 long searches so that every family
    # starts at once on 16 workers and a tight budget cuts them all alike
    out = [Task('preempt', preempt),
           Task('conv/exhaustive', conv_exhaustive),
           Task('compat/chain', compat_table),
           Task('predicate/table', predicate_table),
           Task('conv/suffix', conv_suffix_invalid,
                seed=core.derive_seed(seed, ID, 'suffix', 0),
                max_examples=500 if q else 5000),
           Task('predicate/malformed', malformed,
                seed=core.derive_seed(seed, ID, 'malformed', 0),
                max_examples=500 if q else 5000),
           Task('oracle-selftest', key_selftest,
                seed=core.derive_seed(seed, ID, 'key', 0),
                max_examples=800 if q else 5000)]
    n_conv = 1000 if q else 12000
    n_ver = 700 if q else 9000
    for i in range(3):
        out.append(Task('conv/random', conv_random,
                        seed=core.derive_seed(seed, ID, 'conv', i),
                        max_examples=n_conv))
    for i in range(5):
        out.append(Task('compat', compat,
                        seed=core.derive_seed(seed, ID, 'compat', i),
                        max_examples=n_ver))
        out.append(Task('predicate', predicate,
                        seed=core.derive_seed(seed, ID, 'pred', i),
                        max_examples=n_ver))
    return out


def preempt(col):
    """Schedules (core.preempt_calls): one VersionPredicate object shared
    by two callers, and the other helpers against each other, under every
    single preemption inside versionutils."""
    from oslo_utils import versionutils as vu
    sub = 'preempt'
    box = {}

    def fresh():
        box['p'] = vu.VersionPredicate('>=1.0, <2.0, !=1.5')
        box['q'] = vu.VersionPredicate('==3.1')

    T, F = ('value', True), ('value', False)
    calls = [
        ('p.satisfied_by(1.4)', lambda: box['p'].satisfied_by('1.4'), T),
        ('p.satisfied_by(2.5)', lambda: box['p'].satisfied_by('2.5'), F),
        ('p.satisfied_by(1.9)', lambda: box['p'].satisfied_by('1.9'), T),
        ('p.satisfied_by(0.9)', lambda: box['p'].satisfied_by('0.9'), F),
        ('q.satisfied_by(3.1)', lambda: box['q'].satisfied_by('3.1'), T),
        ('p.satisfied_by(1.5)', lambda: box['p'].satisfied_by('1.5'), F),
        ('is_compatible(1.0, 1.5)', lambda: vu.is_compatible('1.0', '1.5'),
         T),
        ('is_compatible(2.0, 1.0)', lambda: vu.is_compatible('2.0', '1.0'),
         F),
        ('is_compatible(1.0, 2.0, same_major=False)',
         lambda: vu.is_compatible('1.0', '2.0', same_major=False), T),
        ('to_int(1.2.3)', lambda: vu.convert_version_to_int('1.2.3'),
         ('value', 1002003)),
        ('to_str(10020030)', lambda: vu.convert_version_to_str(10020030),
         ('value', '10.20.30')),
        ('to_int(2.0rc1)', lambda: vu.convert_version_to_int('2.0rc1'),
         ('value', 2000)),
        ('VersionPredicate(malformed)',
         lambda: vu.VersionPredicate('~=1.0'), ('raise', 'ValueError')),
    ]
    core.preempt_calls(col, sub, ['oslo_utils.versionutils'], calls,
                       before_each=fresh)
    col.exhaustive.setdefault(sub, False)


def replay(rec):
    from oslo_utils import versionutils as vu
    case = rec['case']
    sub = rec.get('sub', 'replay')
    kind = case.get('kind')
    if case.get('preempt_calls'):
        return preempt(core.Collector())
    if kind == 'roundtrip':
        check_roundtrip(vu, tuple(case['v']), sub)
    elif kind == 'order':
        check_order(vu, tuple(case['a']), tuple(case['b']), sub)
    elif kind == 'suffix':
        check_suffix(vu, tuple(case['v']), case['suffix'], case['digits'],
                     sub)
    elif kind == 'invalid':
        check_invalid(vu, case['s'], sub)
    elif kind == 'compat':
        check_compat(vu, case, sub)
    elif kind == 'predicate':
        check_predicate(vu, case, sub)
    elif kind == 'malformed':
        check_malformed(vu, case['pred_s'], sub)
    else:
        raise core.HarnessError('unknown case kind %r' % (kind,))
