"""C12 - time normalisation, overridden-clock comparison and marshalling.

Round trips plus an integer-microsecond reference model.  Every instant is
carried as an integer number of microseconds since 0001-01-01T00:00:00 and
turned into datetime objects only at the call boundary; expected verdicts
are computed on the integers.  A case is a plain JSON-able dict, so the
replay goes through the same oracle functions without Hypothesis.
"""

import datetime
import fractions
import json

from vcheck import core
from vcheck.core import Task, Violation

ID = 'C12'
LEVEL = 'exploration'
BUDGET = {'quick': 45, 'thorough': 420}
# deterministic sub-checks repeated in a `python -O` child (core.optimized_child)
OPT_SUBS = ('override', 'localzone', 'foldpairs')
# documented call interface the generated calls rely on (vcheck/callstyle.py)
INTERFACE = [('oslo_utils.timeutils', ['is_older_than', 'is_newer_than', 'is_soon', 'normalize_time', 'marshall_now', 'unmarshall_time', 'advance_time_delta', 'advance_time_seconds', 'set_time_override', 'utcnow_ts', 'utcnow', 'parse_isotime', 'delta_seconds'])]
RULE = ('instants = integer microseconds over the whole datetime range (2-day '
        'margin at both ends), biased to range ends, the epoch, leap days and '
        'microsecond != 0; tz in {naive, five spellings of UTC, fixed offsets '
        '-23:59..+23:59 (every minute offset enumerated once in the '
        'exhaustive sub-check), zoneinfo zones incl. DST gaps/folds and '
        'sub-minute LMT offsets}; comparison cases are constructed from '
        '(T, seconds, e) so that the distance to the boundary is e: one third '
        'e=0, one third e=+-1us, rest random; seconds are ints or k/10^6 '
        'floats of either sign; t rendered naive / aware / ISO string; clock '
        'set through set_time_override or TimeFixture; a deterministic family '
        'is repeated with the process-local zone (TZ + tzset) set to four '
        'non-UTC POSIX zones (localzone). Non-trivial: aware '
        'non-UTC t, or |e| <= 1us, or microsecond != 0 through marshalling / '
        'timestamp, or string input, or >= 1 advance step; distinct by the '
        'argument tuple.')
ASSUMPTIONS = [
    'datetime / timedelta / zoneinfo / fixed-offset tzinfo arithmetic of the '
    'standard library is the trusted base (utcoffset() of a zone is taken '
    'from zoneinfo)',
    'a float second count k/10^6 (|k| <= 10^15) denotes exactly k '
    'microseconds; sub-microsecond second counts are not generated',
    'a naive ISO string denotes UTC (relied upon by is_older_than callers); '
    'parse_isotime of a naive isoformat may return naive or UTC',
    'the override instant T is naive (UTC); lists of override instants are '
    'outside the statement ("a single instant")',
    'utcnow_ts(True) is a float: tolerance 1us + 2^-52 relative',
    'isoformat() output with a seconds component in the offset (LMT zones) '
    'is not ISO 8601: unspecified zone (ValueError or the right instant)',
]

US = 10 ** 6
DAY_US = 86400 * US
MAX_US = ((datetime.date.max.toordinal() - 1) * 86400 + 86399) * US + 999999
LO = 2 * DAY_US
HI = MAX_US - 2 * DAY_US
EPOCH_US = (datetime.date(1970, 1, 1).toordinal() - 1) * DAY_US

ZONES = ('America/New_York', 'Europe/London', 'Australia/Lord_Howe',
         'Asia/Kolkata', 'Asia/Kathmandu', 'Pacific/Kiritimati',
         'Pacific/Apia', 'America/St_Johns', 'Europe/Amsterdam',
         'Etc/GMT+12', 'Africa/Monrovia')
UTC_VARIANTS = ('timezone.utc', 'iso8601.UTC', 'td0', 'zoneinfo', 'py35')


# -- integer <-> datetime (independent of timedelta arithmetic) -------------

def to_us(dt):
    """Wall-clock fields of dt as microseconds since 0001-01-01 00:00."""
    return (((dt.toordinal() - 1) * 86400 + dt.hour * 3600 + dt.minute * 60
             + dt.second) * US + dt.microsecond)


def from_us(n):
    if not 0 <= n <= MAX_US:
        raise core.HarnessError('instant out of range: %r' % (n,))
    days, rem = divmod(n, DAY_US)
    secs, us = divmod(rem, US)
    d = datetime.date.fromordinal(days + 1)
    return datetime.datetime(d.year, d.month, d.day, secs // 3600,
                             secs // 60 % 60, secs % 60, us)


def td_us(td):
    return (td.days * 86400 + td.seconds) * US + td.microseconds


def make_tz(spec):
    kind = spec[0]
    if kind == 'naive':
        return None
    if kind == 'utc':
        v = spec[1]
        if v == 'timezone.utc':
            return datetime.timezone.utc
        if v == 'iso8601.UTC':
            import iso8601
            return iso8601.UTC
        if v == 'td0':
            return datetime.timezone(datetime.timedelta(0))
        if v == 'zoneinfo':
            import zoneinfo
            return zoneinfo.ZoneInfo('UTC')
        if v == 'py35':
            return datetime.timezone(datetime.timedelta(0), 'UTC+00:00')
    if kind == 'fixed':
        return datetime.timezone(datetime.timedelta(minutes=spec[1]))
    if kind == 'fixed8601':
        import iso8601
        m = spec[1]
        sign = -1 if m < 0 else 1
        return iso8601.iso8601.FixedOffset(sign * (abs(m) // 60),
                                           sign * (abs(m) % 60), 'foo')
    if kind == 'zone':
        import zoneinfo
        return zoneinfo.ZoneInfo(spec[1])
    raise core.HarnessError('bad tz spec %r' % (spec,))


def wall_dt(wall_us, spec):
    """datetime with the given wall-clock fields in tz `spec`."""
    t = from_us(wall_us)
    tz = make_tz(spec)
    if tz is None:
        return t
    fold = spec[2] if spec[0] == 'zone' and len(spec) > 2 else 0
    return t.replace(tzinfo=tz, fold=fold)


def instant_dt(inst_us, spec):
    """datetime in tz `spec` denoting the UTC instant inst_us, or None."""
    t = from_us(inst_us)
    tz = make_tz(spec)
    if tz is None:
        return t
    t = t.replace(tzinfo=datetime.timezone.utc).astimezone(tz)
    if to_us(t) - td_us(t.utcoffset()) != inst_us:
        return None
    return t


def tz_class(spec):
    if spec[0] in ('fixed', 'fixed8601'):
        m = spec[1]
        if abs(m) >= 1380:
            return 'fixed/>=23h'
        if m % 60:
            return 'fixed/odd-minutes'
        return 'fixed/whole-hours'
    if spec[0] == 'utc':
        return 'utc/' + spec[1]
    return spec[0]


def is_utc_like(spec):
    return spec[0] == 'utc' or (spec[0] in ('fixed', 'fixed8601')
                                and spec[1] == 0)


# -- strategies ---------------------------------------------------------------

def _strategies():
    from hypothesis import strategies as st

    special = [LO, HI, EPOCH_US, EPOCH_US - 1, EPOCH_US + 1,
               to_us(datetime.datetime(2000, 2, 29, 23, 59, 59, 999999)),
               to_us(datetime.datetime(1999, 12, 31, 23, 59, 59, 999999)),
               to_us(datetime.datetime(2021, 3, 14, 2, 30)),    # NY gap
               to_us(datetime.datetime(2021, 11, 7, 1, 30)),    # NY fold
               to_us(datetime.datetime(2011, 12, 30, 12, 0)),   # Apia skip
               to_us(datetime.datetime(1883, 11, 18, 12, 0)),
               to_us(datetime.datetime(1997, 8, 29, 6, 14)),
               to_us(datetime.datetime(2038, 1, 19, 3, 14, 8))]
    modern = st.integers(to_us(datetime.datetime(1950, 1, 1)),
                         to_us(datetime.datetime(2100, 1, 1)))
    instants = st.one_of(
        st.sampled_from(special),
        st.integers(LO, HI),
        modern,
        modern.map(lambda n: n - n % US),
        st.integers(LO // DAY_US, HI // DAY_US - 1).map(
            lambda d: d * DAY_US),
        st.sampled_from(special).flatmap(
            lambda n: st.integers(max(LO, n - 3 * 3600 * US),
                                  min(HI, n + 3 * 3600 * US))))
    minutes = st.one_of(
        st.sampled_from([-1439, 1439, -1438, 1438, -60, 60, -120, 120, 1, -1,
                         330, 345, -210, 765, 0]),
        st.integers(-1439, 1439))
    utc = st.sampled_from(UTC_VARIANTS).map(lambda v: ['utc', v])
    fixed = st.one_of(minutes.map(lambda m: ['fixed', m]),
                      minutes.map(lambda m: ['fixed8601', m]))
    zone = st.tuples(st.sampled_from(ZONES), st.integers(0, 1)).map(
        lambda p: ['zone', p[0], p[1]])
    naive = st.just(['naive'])
    return st, instants, naive, utc, fixed, zone


def _bad(sub, msg, case):
    raise Violation(sub, msg, case)


def _reset(timeutils):
    timeutils.clear_time_override()


# -- sub-check: normalize_time -------------------------------------------------

def oracle_normalize(col, case, sub='normalize'):
    from oslo_utils import timeutils
    spec = case['tz']
    wall = case['wall']
    _reset(timeutils)
    try:
        t = wall_dt(wall, spec)
        off = t.utcoffset()
        want = None if off is None else wall - td_us(off)
        if spec[0] in ('fixed', 'fixed8601') and td_us(off) != spec[1] * 60 * US:
            raise core.HarnessError('tz construction: %r' % (spec,))
        nontrivial = off is not None and td_us(off) != 0
        col.case(sub, (wall, tuple(spec)), nontrivial, tz_class(spec), case)
        if want is not None and not 0 <= want <= MAX_US:
            col.unspec(sub, 'result outside the representable range')
            try:
                timeutils.normalize_time(t)
            except OverflowError:
                pass
            return
        try:
            res = timeutils.normalize_time(t)
        except Exception as e:
            _bad(sub, 'normalize_time(%r) raised %r' % (t, e), case)
        if off is None:
            if res is not t and not (res == t and res.tzinfo is None):
                _bad(sub, 'normalize_time changed a naive datetime: %r -> %r'
                     % (t, res), case)
            return
        if not isinstance(res, datetime.datetime) or res.tzinfo is not None:
            _bad(sub, 'normalize_time(%r) is not naive: %r' % (t, res), case)
        if to_us(res) != want:
            _bad(sub, 'normalize_time(%s) = %s, the UTC instant is %s'
                 % (t.isoformat(), res.isoformat(), from_us(want).isoformat()),
                 case)
    finally:
        _reset(timeutils)


# -- sub-check: parse_isotime inverts isoformat --------------------------------

def oracle_isoformat(col, case, sub='isoformat'):
    from oslo_utils import timeutils
    spec = case['tz']
    wall = case['wall']
    style = case.get('style', 'isoformat')
    _reset(timeutils)
    try:
        t = wall_dt(wall, spec)
        off = t.utcoffset()
        off_us = None if off is None else td_us(off)
        if style == 'Z':
            text = from_us(wall).isoformat() + 'Z'
        else:
            text = t.isoformat()
        col.case(sub, (wall, tuple(spec), style),
                 off_us not in (None, 0) or wall % US != 0,
                 (tz_class(spec), 'style/' + style), dict(case, text=text))
        unspecified = off_us is not None and off_us % (60 * US) != 0
        if unspecified:
            col.unspec(sub, 'offset with seconds is not ISO 8601')
        try:
            res = timeutils.parse_isotime(text)
        except ValueError as e:
            if unspecified:
                return
            _bad(sub, 'parse_isotime(%r) raised %r' % (text, e), case)
        except Exception as e:
            _bad(sub, 'parse_isotime(%r) raised %r' % (text, e), case)
        if not isinstance(res, datetime.datetime):
            _bad(sub, 'parse_isotime(%r) returned %r' % (text, res), case)
        roff = res.utcoffset()
        if off_us is None:
            if to_us(res) != wall or (roff is not None and td_us(roff) != 0):
                _bad(sub, 'parse_isotime(%r) = %r: a naive ISO time must keep '
                     'its fields (as naive or UTC)' % (text, res), case)
            return
        if roff is None:
            _bad(sub, 'parse_isotime(%r) lost the offset: %r' % (text, res),
                 case)
        if to_us(res) - td_us(roff) != wall - off_us:
            _bad(sub, 'parse_isotime(%r) = %s denotes another instant'
                 % (text, res.isoformat()), case)
        if td_us(roff) != off_us:
            _bad(sub, 'parse_isotime(%r) has offset %s, expected %s'
                 % (text, roff, off), case)
        # (== between zones is False by definition for a wall time whose
        # offset depends on `fold`, so it is only demanded for fixed offsets)
        if spec[0] != 'zone' and res != t:
            _bad(sub, 'parse_isotime(%r) != original datetime' % (text,), case)
    finally:
        _reset(timeutils)


# -- sub-check: marshalling ------------------------------------------------------

_FIELDS = ('year', 'month', 'day', 'hour', 'minute', 'second', 'microsecond')


def oracle_marshal(col, case, sub='marshal'):
    from oslo_utils import timeutils
    _reset(timeutils)
    try:
        kind = case['kind']
        if kind == 'dict':
            # unmarshall_time on a hand-made dict (second may be 60)
            d = dict(case['dict'])
            sec = d['second']
            col.case(sub, tuple(sorted(d.items(), key=repr)),
                     sec == 60 or d['microsecond'] != 0,
                     'dict/second=60' if sec == 60 else 'dict/plain', case)
            try:
                arg = dict(d)
                timeutils.unmarshall_time(arg)
                res = timeutils.unmarshall_time(arg)     # same dict again
            except Exception as e:
                _bad(sub, 'unmarshall_time(%r) raised %r' % (d, e), case)
            if arg != d:
                _bad(sub, 'unmarshall_time changed its argument: %r -> %r'
                     % (d, arg), case)
            want = (d['year'], d['month'], d['day'], d['hour'], d['minute'],
                    min(sec, 59), d['microsecond'])
            got = tuple(getattr(res, f) for f in _FIELDS)
            if got != want:
                _bad(sub, 'unmarshall_time(%r) = %r, expected fields %r'
                     % (d, res, want), case)
            tzname = d.get('tzname')
            roff = res.utcoffset()
            if tzname is None and roff is not None:
                _bad(sub, 'unmarshall_time invented a zone: %r' % (res,), case)
            if tzname is not None and (roff is None or td_us(roff) != 0):
                _bad(sub, 'unmarshall_time(%r) is not UTC: %r' % (d, res),
                     case)
            return
        spec = case['tz']
        wall = case['wall']
        t = wall_dt(wall, spec)
        col.case(sub, (wall, tuple(spec), kind), wall % US != 0,
                 (tz_class(spec), 'via/' + kind), case)
        try:
            if kind == 'default':
                timeutils.set_time_override(t)
                m = timeutils.marshall_now()
            else:
                m = timeutils.marshall_now(t)
        except Exception as e:
            _bad(sub, 'marshall_now(%r) raised %r' % (t, e), case)
        if not isinstance(m, dict):
            _bad(sub, 'marshall_now returned %r' % (m,), case)
        try:
            wire = json.loads(json.dumps(m))
        except (TypeError, ValueError) as e:
            _bad(sub, 'marshall_now(%r) = %r is not rpc-safe: %r' % (t, m, e),
                 case)
        for label, payload in (('direct', m), ('json', wire),
                               ('direct, second time', m),
                               ('json, second time', wire)):
            # the same payload is unmarshalled twice (a message delivered to
            # two consumers): the argument belongs to the caller
            before = dict(payload)
            try:
                res = timeutils.unmarshall_time(payload)
            except Exception as e:
                _bad(sub, 'unmarshall_time(%r) raised %r (%s)'
                     % (payload, e, label), case)
            if payload != before:
                _bad(sub, 'unmarshall_time changed its argument: %r -> %r'
                     % (before, payload), case)
            if not isinstance(res, datetime.datetime) or to_us(res) != wall:
                _bad(sub, 'unmarshall_time(marshall_now(%s)) = %r (%s)'
                     % (t.isoformat(), res, label), case)
            roff = res.utcoffset()
            if spec[0] == 'naive':
                if roff is not None:
                    _bad(sub, 'naive datetime came back aware: %r' % (res,),
                         case)
            elif roff is None or td_us(roff) != 0:
                _bad(sub, 'UTC datetime %s came back as %r (%s)'
                     % (t.isoformat(), res, label), case)
            if res != t:
                _bad(sub, 'round trip changed the value: %r -> %r' % (t, res),
                     case)
    finally:
        _reset(timeutils)


# -- sub-check: overridden clock ---------------------------------------------------

def _seconds_arg(s):
    """(argument passed to the code, exact microseconds)."""
    if s[0] == 'int':
        return s[1], s[1] * US
    if s[0] == 'frac':
        return s[1] / 1e6, s[1]
    raise core.HarnessError('bad seconds spec %r' % (s,))


class _Clock:
    """Installs the override the way the case asks for and removes it."""

    def __init__(self, mode, T):
        from oslo_utils import timeutils
        self.mode = mode
        self.T = T
        self.timeutils = timeutils
        self.fx = None

    def install(self):
        if self.mode == 'direct':
            self.timeutils.set_time_override(self.T)
        else:
            from oslo_utils import fixture
            self.fx = fixture.TimeFixture(self.T)
            if self.mode == 'fixture-with':
                self.fx.__enter__()
            else:
                self.fx.setUp()

    def advance_delta(self, td):
        (self.fx or self.timeutils).advance_time_delta(td)

    def advance_seconds(self, s):
        (self.fx or self.timeutils).advance_time_seconds(s)

    def remove(self):
        if self.mode == 'direct':
            self.timeutils.clear_time_override()
        elif self.mode == 'fixture-with':
            self.fx.__exit__(None, None, None)
        else:
            self.fx.cleanUp()


def _check_now(sub, case, timeutils, cur, what):
    want = from_us(cur)
    for i in range(2):
        got = timeutils.utcnow()
        if got != want or getattr(got, 'tzinfo', 1) is not None:
            _bad(sub, '%s: utcnow() = %r, expected %r (read %d)'
                 % (what, got, want, i + 1), case)
    ts = timeutils.utcnow_ts()
    want_ts = (cur - EPOCH_US) // US
    if isinstance(ts, bool) or not isinstance(ts, int) or ts != want_ts:
        _bad(sub, '%s: utcnow_ts() = %r, expected %r' % (what, ts, want_ts),
             case)
    tsf = timeutils.utcnow_ts(microsecond=True)
    exact = fractions.Fraction(cur - EPOCH_US, US)
    try:
        err = abs(fractions.Fraction(tsf) - exact)
    except (TypeError, ValueError, OverflowError):
        _bad(sub, '%s: utcnow_ts(True) = %r' % (what, tsf), case)
    if err > fractions.Fraction(1, US) + abs(exact) / 2 ** 52:
        _bad(sub, '%s: utcnow_ts(microsecond=True) = %r, expected %s'
             % (what, tsf, float(exact)), case)


def oracle_override(col, case, sub='override'):
    from oslo_utils import timeutils
    _reset(timeutils)
    clock = _Clock(case['mode'], from_us(case['T']))
    installed = False
    try:
        cur = case['T']
        ops = case['ops']
        col.case(sub, (cur, case['mode'], json.dumps(ops)),
                 bool(ops) or cur % US != 0,
                 ('mode/' + case['mode'], 'ops/%d' % len(ops)) +
                 tuple(sorted({'op/' + o[0] for o in ops})), case)
        clock.install()
        installed = True
        _check_now(sub, case, timeutils, cur, 'after override')
        for i, op in enumerate(ops):
            if op[0] == 'set':
                # a new single-instant override on top of the current one,
                # without clearing first: the clock is now that instant
                timeutils.set_time_override(from_us(op[1]))
                cur = op[1]
            elif op[0] == 'nest':
                # a nested fixture with its own instant, advanced, then
                # cleaned up (which clears the override altogether)
                from oslo_utils import fixture
                fx = fixture.TimeFixture(from_us(op[1]))
                fx.setUp()
                try:
                    _check_now(sub, case, timeutils, op[1],
                               'inside nested fixture at step %d' % i)
                    fx.advance_time_delta(
                        datetime.timedelta(microseconds=op[2]))
                    _check_now(sub, case, timeutils, op[1] + op[2],
                               'inside nested fixture at step %d (advanced)'
                               % i)
                finally:
                    fx.cleanUp()
                # the outer override is gone with the inner cleanup; put a
                # fresh one in place as a caller would
                timeutils.set_time_override(from_us(cur))
            elif op[0] == 'delta':
                clock.advance_delta(datetime.timedelta(microseconds=op[1]))
                cur += op[1]
            else:
                arg, us = _seconds_arg(op)
                clock.advance_seconds(arg)
                cur += us
            _check_now(sub, case, timeutils, cur, 'after step %d %r' % (i, op))
        clock.remove()
        installed = False
        after = timeutils.utcnow()
        if after == from_us(cur) or \
                getattr(timeutils.utcnow, 'override_time', None) is not None:
            _bad(sub, 'override still active after %s'
                 % ('clear_time_override' if case['mode'] == 'direct'
                    else 'the fixture was cleaned up'), case)
    finally:
        if installed:
            try:
                clock.remove()
            except Exception:
                pass
        _reset(timeutils)


# -- sub-check: comparisons under an overridden clock ------------------------------

def oracle_compare(col, case, sub='compare'):
    from oslo_utils import timeutils
    _reset(timeutils)
    fn = case['fn']
    T = case['T']
    that = case['that']
    spec = case['tz']
    arg, s_us = _seconds_arg(case['s'])
    if fn == 'older':
        dist = (T - that) - s_us
        want = dist > 0
    elif fn == 'newer':
        dist = (that - T) - s_us
        want = dist > 0
    elif fn == 'soon':
        dist = that - (T + s_us)
        want = dist <= 0
    else:
        raise core.HarnessError('bad fn %r' % (fn,))
    clock = _Clock(case.get('mode', 'direct'), from_us(T))
    installed = False
    try:
        t = instant_dt(that, spec)
        if t is None:
            col.unspec(sub, 'zone cannot express the instant')
            return
        if case.get('as_str'):
            off = t.utcoffset()
            if off is not None and td_us(off) % (60 * US):
                col.unspec(sub, 'offset with seconds is not ISO 8601')
                return
            t_arg = t.isoformat()
        else:
            t_arg = t
        near = 'e=0' if dist == 0 else ('|e|=1us' if abs(dist) == 1
                                        else 'e=far')
        kind = 'str' if case.get('as_str') else (
            'naive' if spec[0] == 'naive' else 'aware')
        col.case(sub, (fn, T, that, tuple(case['s']), tuple(spec),
                       bool(case.get('as_str'))),
                 abs(dist) <= 1 or bool(case.get('as_str')) or
                 (spec[0] != 'naive' and not is_utc_like(spec)),
                 (fn + '/' + near, fn + '/t=' + kind, 'tz/' + tz_class(spec),
                  's/' + case['s'][0] + ('/neg' if s_us < 0 else
                                          '/zero' if s_us == 0 else '/pos'),
                  'mode/' + case.get('mode', 'direct')),
                 dict(case, t=str(t_arg)))
        clock.install()
        installed = True
        f = {'older': timeutils.is_older_than,
             'newer': timeutils.is_newer_than,
             'soon': timeutils.is_soon}[fn]
        try:
            got = f(t_arg, arg)
        except Exception as e:
            _bad(sub, 'is_%s(%r, %r) with now=%s raised %r'
                 % (fn, t_arg, arg, from_us(T).isoformat(), e), case)
        if not isinstance(got, bool) or got is not want:
            _bad(sub, 'is_%s%s(%s, %r) with now=%s returned %r, expected %r '
                 '(distance to the boundary %+d us)'
                 % (fn, '' if fn == 'soon' else '_than',
                    t_arg if isinstance(t_arg, str) else t_arg.isoformat(),
                    arg, from_us(T).isoformat(), got, want, dist), case)
        # the clock must not have been consumed or moved by the comparison
        if timeutils.utcnow() != from_us(T):
            _bad(sub, 'is_%s moved the overridden clock' % fn, case)
    finally:
        if installed:
            try:
                clock.remove()
            except Exception:
                pass
        _reset(timeutils)


# -- Hypothesis drivers ---------------------------------------------------------------

def search_normalize(col, seed, max_examples):
    st, instants, naive, utc, fixed, zone = _strategies()
    tz = st.one_of(naive, utc, fixed, fixed, zone, zone)
    strat = st.fixed_dictionaries({'wall': instants, 'tz': tz})
    core.run_given(col, strat, oracle_normalize, seed, max_examples)


def search_isoformat(col, seed, max_examples):
    st, instants, naive, utc, fixed, zone = _strategies()
    tz = st.one_of(naive, utc, fixed, fixed, zone)
    plain = st.fixed_dictionaries({'wall': instants, 'tz': tz,
                                   'style': st.just('isoformat')})
    zulu = st.fixed_dictionaries({'wall': instants, 'tz': utc,
                                  'style': st.just('Z')})
    core.run_given(col, st.one_of(plain, plain, plain, zulu),
                   oracle_isoformat, seed, max_examples)


def search_marshal(col, seed, max_examples):
    st, instants, naive, utc, fixed, zone = _strategies()
    trip = st.fixed_dictionaries({
        'kind': st.sampled_from(['arg', 'arg', 'default']),
        'wall': st.one_of(instants, st.integers(0, MAX_US),
                          st.sampled_from([0, MAX_US])),
        'tz': st.one_of(naive, utc)})
    # 'default' mode puts t into the override; only naive T is in the statement
    trip = trip.map(lambda c: c if c['kind'] == 'arg' or c['tz'] == ['naive']
                    else dict(c, kind='arg'))

    def mk(n, sec, us, tzname):
        d = from_us(n)
        out = dict(year=d.year, month=d.month, day=d.day, hour=d.hour,
                   minute=d.minute, second=sec, microsecond=us)
        if tzname is not None:
            out['tzname'] = tzname
        return {'kind': 'dict', 'dict': out}

    raw = st.builds(mk, st.integers(0, MAX_US),
                    st.one_of(st.just(60), st.just(59), st.integers(0, 60)),
                    st.one_of(st.just(0), st.just(999999),
                              st.integers(0, 999999)),
                    st.sampled_from([None, None, 'UTC', 'UTC+00:00']))
    core.run_given(col, st.one_of(trip, trip, raw), oracle_marshal, seed,
                   max_examples)


def search_override(col, seed, max_examples):
    st, instants, naive, utc, fixed, zone = _strategies()

    @st.composite
    def cases(draw):
        T = draw(instants)
        ops = []
        cur = T
        for _ in range(draw(st.integers(0, 5))):
            kind = draw(st.sampled_from(['delta', 'int', 'frac', 'set',
                                         'nest']))
            lo, hi = LO - cur, HI - cur
            if kind == 'set':
                cur = draw(instants)
                ops.append(['set', cur])
            elif kind == 'nest':
                t2 = draw(instants)
                d2 = draw(st.sampled_from([0, 1, US, -US, DAY_US]))
                d2 = max(LO - t2, min(HI - t2, d2))
                ops.append(['nest', t2, d2])
            elif kind == 'delta':
                v = draw(st.one_of(
                    st.sampled_from([0, 1, -1, US, -US, 1500000, DAY_US,
                                     -DAY_US]),
                    st.integers(-10 ** 13, 10 ** 13), st.integers(lo, hi)))
                v = max(lo, min(hi, v))
                ops.append(['delta', v])
                cur += v
            elif kind == 'int':
                v = draw(st.one_of(
                    st.sampled_from([0, 1, -1, 2, 60, -3600, 86400]),
                    st.integers(-10 ** 7, 10 ** 7),
                    st.integers(-(-lo // US), hi // US)))
                v = max(-(-lo // US), min(hi // US, v))
                ops.append(['int', v])
                cur += v * US
            else:
                v = draw(st.one_of(
                    st.sampled_from([1, -1, 500000, -500000, 1500000, 999999,
                                     100000, 300000]),
                    st.integers(-10 ** 9, 10 ** 9),
                    st.integers(-10 ** 15, 10 ** 15)))
                v = max(lo, min(hi, v))
                ops.append(['frac', v])
                cur += v
        mode = draw(st.sampled_from(['direct', 'fixture', 'fixture-with']))
        return {'T': T, 'ops': ops, 'mode': mode}

    core.run_given(col, cases(), oracle_override, seed, max_examples)


def search_compare(col, seed, max_examples, fns):
    st, instants, naive, utc, fixed, zone = _strategies()
    tzs = st.one_of(naive, naive, utc, fixed, fixed, zone)

    @st.composite
    def cases(draw):
        fn = draw(st.sampled_from(fns))
        T = draw(instants)
        e = draw(st.one_of(st.just(0), st.sampled_from([1, -1]),
                           st.one_of(st.integers(-5, 5),
                                     st.integers(-10 ** 7, 10 ** 7),
                                     st.integers(-10 ** 13, 10 ** 13))))
        # s_us range such that `that` (and T + s for is_soon) stays in range
        if fn == 'older':        # that = T - s - e
            lo, hi = T - e - HI, T - e - LO
        else:                    # that = T + s + e
            lo, hi = LO - e - T, HI - e - T
            if fn == 'soon':
                lo, hi = max(lo, LO - T), min(hi, HI - T)
        skind = draw(st.sampled_from(['int', 'int', 'frac']))
        if skind == 'int':
            nlo, nhi = -(-lo // US), hi // US
            n = draw(st.one_of(
                st.sampled_from([0, 1, -1, 59, 60, 61, 3600, -3600, 86400]),
                st.integers(-10 ** 6, 10 ** 6), st.integers(nlo, nhi)))
            n = max(nlo, min(nhi, n))
            s, s_us = ['int', n], n * US
        else:
            klo, khi = max(lo, -10 ** 15), min(hi, 10 ** 15)
            k = draw(st.one_of(
                st.sampled_from([1, -1, 500000, 1500000, -250000, 100000,
                                 300000, 999999]),
                st.integers(-10 ** 8, 10 ** 8), st.integers(klo, khi)))
            k = max(klo, min(khi, k))
            s, s_us = ['frac', k], k
        that = T - s_us - e if fn == 'older' else T + s_us + e
        that = max(LO, min(HI, that))
        as_str = draw(st.booleans()) and draw(st.booleans())
        mode = draw(st.sampled_from(['direct', 'direct', 'fixture']))
        return {'fn': fn, 'T': T, 'that': that, 's': s, 'tz': draw(tzs),
                'as_str': as_str, 'mode': mode}

    def oracle(col, case):
        oracle_compare(col, case)

    core.run_given(col, cases(), oracle, seed, max_examples)


# -- exhaustive: every minute offset -----------------------------------------------

def offsets_exhaustive(col, lo, hi):
    sub = 'offsets'
    walls = (to_us(datetime.datetime(1997, 8, 29, 6, 14, 0, 123456)),
             LO, HI, to_us(datetime.datetime(2024, 2, 29, 23, 59, 59, 999999)))
    T = to_us(datetime.datetime(2015, 1, 2, 3, 4, 6, 7))
    for m in range(lo, hi):
        for kind in ('fixed', 'fixed8601'):
            spec = [kind, m]
            for w in walls:
                oracle_normalize(col, {'wall': w, 'tz': spec}, sub)
                if kind == 'fixed':
                    oracle_isoformat(col, {'wall': w, 'tz': spec,
                                           'style': 'isoformat'}, sub)
            for fn in ('older', 'newer', 'soon'):
                for e in (0, 1):
                    that = T - 60 * US - e if fn == 'older' else \
                        T + 60 * US + e
                    oracle_compare(col, {
                        'fn': fn, 'T': T, 'that': that, 's': ['int', 60],
                        'tz': spec, 'as_str': kind == 'fixed',
                        'mode': 'direct'}, sub)
    col.exhaustive[sub] = True


KNOWN = {}


# -- entry points ---------------------------------------------------------------------------

def override_histories(col):
    """Deterministic histories of set / advance / set-again / nested
    fixture: after every step utcnow() is the last instant set plus what was
    advanced since."""
    sub = 'override'
    A = to_us(datetime.datetime(2001, 2, 3, 4, 5, 6, 7))
    B = to_us(datetime.datetime(1969, 12, 31, 23, 59, 59, 999999))
    C = to_us(datetime.datetime(2038, 1, 19, 3, 14, 8))
    steps = (['delta', 1500000], ['int', 60], ['frac', -250000],
             ['set', B], ['set', C], ['nest', B, US], ['delta', -DAY_US])
    import itertools
    for mode in ('direct', 'fixture', 'fixture-with'):
        for n in (1, 2, 3):
            for ops in itertools.product(steps, repeat=n):
                oracle_override(col, {'T': A, 'ops': [list(o) for o in ops],
                                      'mode': mode}, sub)
    col.exhaustive.setdefault(sub, False)


def fold_pairs(col):
    """History sub-check: for every zone with a repeated hour, the two
    datetimes that differ only in `fold` (they compare and hash equal but
    denote instants one DST shift apart) are normalised one after the other
    in the same process, in both orders, and used in comparisons."""
    import zoneinfo
    sub = 'foldpairs'
    utc = datetime.timezone.utc
    found = 0
    for name in ZONES:
        tz = zoneinfo.ZoneInfo(name)
        # locate repeated wall-clock hours: scan 2019..2022 in 1-hour steps
        t = datetime.datetime(2019, 1, 1, tzinfo=utc)
        end = datetime.datetime(2022, 1, 1, tzinfo=utc)
        prev = t.astimezone(tz).utcoffset()
        folds = []
        while t < end and len(folds) < 3:
            off = t.astimezone(tz).utcoffset()
            if off < prev:
                # clocks went back by (prev - off) at instant t
                local = (t + off).replace(tzinfo=None)
                folds.append((local, prev - off))
            prev = off
            t += datetime.timedelta(hours=1)
        for k, (local, shift) in enumerate(folds):
            for j, frac in enumerate((0, 1, 17, 30, 59)):
                wall = to_us(local) + (frac * 60 * US * td_us(shift)) // (
                    3600 * US) + j
                order = (0, 1) if (k + j) % 2 == 0 else (1, 0)
                for fold in order:
                    spec = ['zone', name, fold]
                    tt = wall_dt(wall, spec)
                    other = tt.replace(fold=1 - fold)
                    if tt.utcoffset() == other.utcoffset():
                        continue
                    found += 1
                    oracle_normalize(col, {'wall': wall, 'tz': spec}, sub)
                # comparisons right after both folds were normalised
                T = wall + 3600 * US
                for fold in order:
                    for fn in ('older', 'newer', 'soon'):
                        inst = wall - td_us(wall_dt(
                            wall, ['zone', name, fold]).utcoffset())
                        oracle_compare(col, {
                            'fn': fn, 'T': inst, 'that': inst, 's': ['int', 0],
                            'tz': ['zone', name, fold], 'as_str': False,
                            'mode': 'direct'}, sub)
    if not found:
        col.seam(sub, 'no zone with a repeated hour found (tzdata missing?)')
    col.exhaustive[sub] = True


import contextlib


@contextlib.contextmanager
def process_zone(name):
    """Run with the process-wide local time zone set to the POSIX TZ string
    `name` (glibc parses these without tzdata).  The statement speaks of UTC
    throughout, so no answer may depend on where the process runs."""
    import os
    import time
    if not name:
        yield
        return
    saved = os.environ.get('TZ')
    os.environ['TZ'] = name
    time.tzset()
    try:
        yield
    finally:
        if saved is None:
            os.environ.pop('TZ', None)
        else:
            os.environ['TZ'] = saved
        time.tzset()


PROCESS_ZONES = ('AAA-05:30', 'EST5EDT,M3.2.0,M11.1.0', 'XXX+11',
                 'NZST-12NZDT,M9.5.0,M4.1.0/3')


def local_zone(col, zone):
    """Ambient environment: the deterministic families again with the
    process's local zone away from UTC (TZ + tzset)."""
    sub = 'localzone'
    A = to_us(datetime.datetime(2001, 2, 3, 4, 5, 6, 7))
    B = to_us(datetime.datetime(1969, 12, 31, 23, 59, 59, 999999))
    C = to_us(datetime.datetime(2038, 1, 19, 3, 14, 8))
    D = to_us(datetime.datetime(2021, 3, 14, 2, 30, 0))     # US DST gap
    E = to_us(datetime.datetime(2021, 11, 7, 1, 30, 0, 5))  # US repeated hour
    with process_zone(zone):
        for T in (A, B, C, D, E, LO, HI):
            for mode in ('direct', 'fixture'):
                for ops in ([], [['delta', 1500000]], [['int', 3600]],
                            [['set', D], ['frac', -250000]]):
                    if any(not LO <= T + (o[1] if o[0] != 'int' else o[1] * US)
                           <= HI for o in ops if o[0] != 'set'):
                        continue
                    oracle_override(col, {'T': T, 'ops': ops, 'mode': mode,
                                          'env_tz': zone}, sub)
            for tz in (['naive'], ['utc', 'timezone.utc'], ['fixed', 330], ['fixed', -480]):
                oracle_normalize(col, {'wall': T, 'tz': tz, 'env_tz': zone},
                                 sub)
                if tz[0] != 'fixed' or LO + DAY_US < T < HI - DAY_US:
                    oracle_isoformat(col, {'wall': T, 'tz': tz,
                                           'style': 'isoformat',
                                           'env_tz': zone}, sub)
            for tz in (['naive'], ['utc', 'timezone.utc']):
                for kind in ('arg', 'default'):
                    if kind == 'default' and tz != ['naive']:
                        continue
                    oracle_marshal(col, {'kind': kind, 'wall': T, 'tz': tz,
                                         'env_tz': zone}, sub)
            if LO + DAY_US < T < HI - DAY_US:
                for fn in ('older', 'newer', 'soon'):
                    for e in (0, 1, -1):
                        that = T - 60 * US - e if fn == 'older' else \
                            T + 60 * US + e
                        for tz in (['naive'], ['utc', 'timezone.utc'], ['fixed', 330]):
                            oracle_compare(col, {
                                'fn': fn, 'T': T, 'that': that,
                                's': ['int', 60], 'tz': tz, 'as_str': False,
                                'mode': 'direct', 'env_tz': zone}, sub)
    col.exhaustive.setdefault(sub, False)


def compare_huge(col):
    """Second counts far beyond the distance from now to either end of the
    datetime range ("never expires": 10**11 s is 3000 years) but within
    timedelta's range: now - t and the second count are both representable,
    now -+ seconds is not."""
    sub = 'compare/huge'
    A = to_us(datetime.datetime(2001, 2, 3, 4, 5, 6, 7))
    C = to_us(datetime.datetime(2038, 1, 19, 3, 14, 8))
    for T in (A, C, LO + DAY_US, HI - DAY_US):
        for that in (T, T - DAY_US, T + DAY_US, LO, HI):
            for n in (6 * 10 ** 10, 7 * 10 ** 10, 10 ** 11, 3 * 10 ** 11,
                      10 ** 12, 86399999999999, -10 ** 11, -3 * 10 ** 11,
                      -86000000000000):
                for fn in ('older', 'newer'):
                    for tz in (['naive'], ['utc', 'timezone.utc'],
                               ['fixed', 330]):
                        oracle_compare(col, {
                            'fn': fn, 'T': T, 'that': that, 's': ['int', n],
                            'tz': tz, 'as_str': False, 'mode': 'direct'},
                            sub)
    col.exhaustive.setdefault(sub, True)


def tasks(tier, seed):
    if tier == 'quick':
        n, shards = 2000, 1
    else:
        n, shards = 8000, 2
    out = [Task('foldpairs', fold_pairs),
           Task('override', override_histories),
           Task('compare/huge', compare_huge)]
    for z in PROCESS_ZONES:
        out.append(Task('localzone', local_zone, zone=z))
    step = 360
    for lo in range(-1439, 1440, step):
        out.append(Task('offsets', offsets_exhaustive, lo=lo,
                        hi=min(1440, lo + step)))

    def add(name, fn, count, **kw):
        for i in range(count):
            out.append(Task(name, fn, seed=core.derive_seed(seed, ID, name, i),
                            max_examples=n, **kw))

    add('normalize', search_normalize, shards)
    add('isoformat', search_isoformat, shards)
    add('marshal', search_marshal, shards)
    add('override', search_override, 2 * shards)
    add('compare/older', search_compare, 2 * shards, fns=['older'])
    add('compare/newer', search_compare, 2 * shards, fns=['newer'])
    add('compare/soon', search_compare, 2 * shards, fns=['soon'])
    add('compare/mixed', search_compare, shards,
        fns=['older', 'newer', 'soon'])
    return out


_ORACLES = {'normalize': oracle_normalize, 'isoformat': oracle_isoformat,
            'marshal': oracle_marshal, 'override': oracle_override,
            'compare': oracle_compare}


def replay(rec):
    case = rec['case']
    sub = rec.get('sub', '')
    col = core.Collector()
    if case.get('env_tz'):
        with process_zone(case['env_tz']):
            return replay({'case': {k: v for k, v in case.items()
                                    if k != 'env_tz'}, 'sub': sub})
    if sub in _ORACLES:
        return _ORACLES[sub](col, case)
    # cases recorded by the exhaustive offsets sub-check: dispatch on shape
    if 'fn' in case:
        return oracle_compare(col, case, sub or 'compare')
    if 'ops' in case:
        return oracle_override(col, case, sub or 'override')
    if 'kind' in case:
        return oracle_marshal(col, case, sub or 'marshal')
    if 'style' in case:
        return oracle_isoformat(col, case, sub or 'isoformat')
    return oracle_normalize(col, case, sub or 'normalize')
