"""C05 - inspector memory is bounded by a constant, whatever the stream claims.

Invariant monitored after every step of a generated schedule:
sum(inspector.context_info.values()) <= 1.5 MiB for VMDK, <= 512 KiB for every
other format, on streams long enough that a missing clamp would exceed it.
"""

from vcheck import chunking, core, imgdrive
from vcheck.core import Task, Violation

ID = 'C05'
LEVEL = 'exploration'
BUDGET = {'quick': 60, 'thorough': 600}
# deterministic sub-checks repeated in a `python -O` child (core.optimized_child)
OPT_SUBS = ('sweep#16',)
# documented call interface the generated calls rely on (vcheck/callstyle.py)
INTERFACE = [('oslo_utils.imageutils.format_inspector', None)]
KI = 1024
MI = 1024 * 1024
BOUND = {'vmdk': 3 * MI // 2}
DEFAULT_BOUND = 512 * KI
RULE = ('streams of 0.6-4 MiB: images whose length/count/offset fields are '
        'set to boundary and maximal values (VMDK descriptor sectors 0, 1, '
        '2047..2049, 2^32, 2^64-1 with and without footer; VHDX item length '
        '0..2^32-1, region/metadata counts 2047/2048/65535, metadata offset '
        'near the end; region-entry length 1 MiB) followed by filler, valid '
        'images followed by filler, pure ASCII text, random data x schedules '
        '(fixed 4 KiB..1 MiB, one giant chunk, random cuts, cuts at structure '
        'boundaries); every one of the ten inspectors is driven and '
        'sum(context_info) is read after every chunk and after finish(), '
        'also inside an InspectWrapper. Non-trivial: stream longer than the '
        'bound of the inspector observed and (a hostile field or text '
        'content); distinct by (content recipe, schedule).')
ASSUMPTIONS = [
    'context_info is the audit accessor named by the statement; memory held '
    'transiently inside one eat_chunk call is not visible',
    'no 1-byte schedules at this stream size (C01 covers those on small '
    'streams)',
]


def bound_for(name):
    return BOUND.get(name, DEFAULT_BOUND)


def check_bound(col, case, sub='bound'):
    from vcheck import imggen, imgstrat
    data, img = imgstrat.realize(case['content'])
    sched = case['schedule']
    n = len(data)
    F = imgdrive.fi()
    worst = {}

    def bad(name, held, where, info):
        raise Violation(
            sub, '%s inspector retains %d bytes (%s) %s of a %d-byte stream; '
            'bound is %d' % (name, held, info, where, n, bound_for(name)),
            dict(case, inspector=name))

    imgdrive.tracing_for((core.h64(data), repr(sched)))
    for name in imggen.FORMATS:
        insp = imgdrive.new_inspector(name)
        pos = 0
        for i, chunk in enumerate(chunking.chunks(data, sched)):
            try:
                insp.eat_chunk(chunk)
            except Exception:
                info = insp.context_info
                held = sum(info.values())
                if held > bound_for(name):
                    bad(name, held, 'after raising on chunk %d' % i, info)
                break
            pos += len(chunk)
            info = insp.context_info
            held = sum(info.values())
            worst[name] = max(worst.get(name, 0), held)
            if held > bound_for(name):
                bad(name, held, 'after chunk %d (position %d)' % (i, pos),
                    info)
        insp.finish()
        info = insp.context_info
        held = sum(info.values())
        worst[name] = max(worst.get(name, 0), held)
        if held > bound_for(name):
            bad(name, held, 'after finish()', info)
    if case.get('wrapper'):
        # the same through InspectWrapper (its inspectors are reachable
        # through .formats only once decided, so probe via a subclass-free
        # route: read, then inspect every inspector the wrapper reports)
        (fm, fs), _s, _got, _err, w = imgdrive.drive_wrapper(
            data, sched, 'read')
        try:
            insps = list(w.formats or [])
        except Exception:
            insps = []
        for insp in insps:
            held = sum(insp.context_info.values())
            if held > bound_for(str(insp)):
                bad(str(insp), held, 'inside InspectWrapper after close()',
                    insp.context_info)
    kind = case['content'].get('kind', '?')
    hostile = kind in ('hostile', 'text')
    col.case(sub, (core.h64(data), sched), n > DEFAULT_BOUND and hostile,
             ['kind=' + kind, 'sched=' + _sched_class(sched, n),
              'len>=1.5MiB' if n >= 3 * MI // 2 else 'len<1.5MiB'],
             {'content': _brief(case['content']), 'len': n,
              'schedule': _short(sched),
              'max_retained': {k: v for k, v in worst.items() if v > 600}})


def _sched_class(sched, n):
    if sched[0] == 'fixed':
        return 'fixed%d' % sched[1]
    ne = chunking.nonempty_chunks(sched, n)
    return 'giant' if ne <= 1 else 'cuts%d' % min(ne, 9)


def _short(sched):
    if sched[0] == 'fixed' or len(sched[1]) <= 12:
        return sched
    return ['sizes', sched[1][:12] + ['...']]


def _brief(content):
    c = dict(content)
    if 'bytes' in c and len(c['bytes']) > 120:
        c['bytes'] = c['bytes'][:120] + '...'
    return c


def _strategy():
    from hypothesis import strategies as st
    from vcheck import imggen, imgstrat

    big = st.sampled_from([0, 1, 2047, 2048, 2049, 4096, 2 ** 32,
                           2 ** 63, 2 ** 64 - 1])
    filler = st.sampled_from([600 * KI, 1100 * KI, 1600 * KI, 2 * MI + 5,
                              3 * MI])

    @st.composite
    def vmdk_hostile(draw):
        p = dict(desc_num=draw(big), footer=draw(st.booleans()),
                 grain_data=draw(filler), fill=draw(imgstrat.fills),
                 version=draw(st.sampled_from([1, 2, 3])))
        if draw(st.integers(0, 4)) == 0:
            # one enormous descriptor line
            p['lines'] = ('createType="monolithicSparse"',
                          'x=' + 'a' * draw(st.sampled_from([70000, 1200000])),
                          'RW 1 SPARSE "d.vmdk"')
            p['desc_num'] = draw(st.sampled_from([None, 2 ** 32]))
        return {'base': ['vmdk', p], 'kind': 'hostile'}

    @st.composite
    def vhdx_hostile(draw):
        p = dict(tail=draw(filler), fill=draw(st.sampled_from([0, 3])))
        kind = draw(st.sampled_from(['ilen', 'ilen', 'count', 'mcount',
                                     'far', 'pad', 'declared',
                                     'declared']))
        if kind == 'declared':
            # item offset at / just past the end of the *declared* metadata
            # region length (the region-table entry's length field)
            ml = draw(st.sampled_from([0, 32, 64 * KI, 128 * KI, MI]))
            p['meta_len'] = ml
            p['item_offset'] = max(64 * KI, ml) + draw(
                st.sampled_from([-8, 0, 1, 8, 4096])) if ml >= 64 * KI \
                else draw(st.sampled_from([64 * KI, 64 * KI + 1, 128 * KI]))
            p['item_length'] = draw(st.sampled_from([8, 4096, 2 ** 32 - 1]))
        if kind == 'ilen':
            p['item_length'] = draw(st.sampled_from(
                [0, 8, 64 * KI - 1, 64 * KI, 64 * KI + 1, 600 * KI, MI,
                 2 ** 31, 2 ** 32 - 1]))
        elif kind == 'count':
            p['region_count'] = draw(st.sampled_from([2047, 2048, 65535,
                                                      2 ** 32 - 1]))
            p['region_before'] = draw(st.sampled_from([0, 2045]))
            p['region_after'] = 0
        elif kind == 'mcount':
            p['meta_count'] = draw(st.sampled_from([2047, 2048, 65535]))
            p['meta_before'] = draw(st.sampled_from([0, 2045]))
            p['meta_after'] = 0
        elif kind == 'far':
            p['meta_offset'] = draw(st.sampled_from([MI, 2 * MI]))
            p['item_offset'] = draw(st.sampled_from([64 * KI, 512 * KI,
                                                     MI]))
            p['item_length'] = draw(st.sampled_from([8, 2 ** 32 - 1]))
        else:
            p['meta_before'] = 2045
            p['meta_after'] = 0
        return {'base': ['vhdx', p], 'kind': 'hostile'}

    @st.composite
    def extended_valid(draw):
        rec = draw(imgstrat.valid_images(imggen.FORMATS))
        return dict(rec, extend=[draw(imgstrat.fills), draw(filler)],
                    kind='extended')

    @st.composite
    def text(draw):
        return {'base': ['raw', dict(length=draw(filler) + 1000,
                                     kind='ascii', fill=draw(imgstrat.fills))],
                'kind': 'text'}

    @st.composite
    def random_data(draw):
        return {'base': ['raw', dict(length=draw(filler), kind='random',
                                     fill=draw(imgstrat.fills))],
                'kind': 'random'}

    @st.composite
    def polyglot_big(draw):
        rec = draw(imgstrat.polyglots())
        o = dict(rec['overlay'], length=draw(filler))
        return {'overlay': o, 'kind': 'polyglot'}

    @st.composite
    def fieldmax(draw):
        rec = draw(imgstrat.field_maxed_images(
            imggen.FORMATS, extend=[600 * KI, 1100 * KI, 1600 * KI,
                                    2 * MI + 5]))
        return dict(rec, kind='hostile')

    contents = st.one_of(vmdk_hostile(), vmdk_hostile(), vhdx_hostile(),
                         vhdx_hostile(), extended_valid(), text(),
                         random_data(), polyglot_big(), fieldmax(),
                         fieldmax(), fieldmax())

    @st.composite
    def cases(draw):
        content = draw(contents)
        data, img = imgstrat.realize(content)
        n = len(data)
        bounds = list(img.boundaries) if img is not None else []
        bounds += [512, 256 * KI, MI, MI + 512]
        sched = draw(st.one_of(
            st.sampled_from([['fixed', k] for k in (4096, 65536, 100000,
                                                    512 * KI, MI)]),
            st.just(['sizes', [n]]),
            chunking.schedules(n, bounds, allow_tiny=False,
                               max_chunks=1024)))
        return {'content': content, 'schedule': sched,
                'wrapper': draw(st.integers(0, 3)) == 0}
    return cases()


def bound(col, seed, max_examples):
    core.run_given(col, _strategy(), lambda c, case: check_bound(c, case),
                   seed, max_examples)


def sweep(col, which):
    """Deterministic: every hostile field value x three schedules."""
    sub = 'sweep'
    vals = [0, 1, 2047, 2048, 2049, 4096, 2 ** 32, 2 ** 63, 2 ** 64 - 1]
    cases = []
    if which == 'vmdk':
        for v in vals:
            for footer in (False, True):
                cases.append({'base': ['vmdk', dict(desc_num=v, footer=footer,
                                                    grain_data=1700 * KI)],
                              'kind': 'hostile'})
    elif which == 'vhdx':
        for v in (0, 8, 64 * KI - 1, 64 * KI, 64 * KI + 1, 600 * KI, MI,
                  2 ** 31, 2 ** 32 - 1):
            cases.append({'base': ['vhdx', dict(item_length=v,
                                                tail=1200 * KI)],
                          'kind': 'hostile'})
        for c in (2047, 2048, 65535):
            cases.append({'base': ['vhdx', dict(meta_count=c, tail=700 * KI)],
                          'kind': 'hostile'})
            cases.append({'base': ['vhdx', dict(region_count=c,
                                                tail=700 * KI)],
                          'kind': 'hostile'})
        cases.append({'base': ['vhdx', dict(tail=1200 * KI)],
                      'kind': 'hostile'})
        # every metadata item the format defines (file parameters, sector
        # sizes, page 83 data, parent locator) announcing a huge length
        for il in (64 * KI + 1, 600 * KI, MI, 2 ** 32 - 1):
            for before in (1, 5):
                cases.append({'base': ['vhdx', dict(
                    meta_before=before, meta_after=5 - before,
                    pad_item_length=il, tail=1300 * KI)], 'kind': 'hostile'})
        for ml in (0, 32, 64 * KI, 128 * KI, MI):
            for d in (-8, 0, 1, 8):
                io = max(64 * KI, ml + d)
                for il in (8, 2 ** 32 - 1):
                    cases.append({'base': ['vhdx', dict(
                        meta_len=ml, item_offset=io, item_length=il,
                        tail=1200 * KI)], 'kind': 'hostile'})
    elif which.startswith('fields:'):
        from vcheck import imggen
        fmt, _, first = which[7:].partition(':')
        fields = imggen.FIELDS[fmt]
        firsts = fields if not first else [fields[int(first)]]
        # each field alone at each hostile value, and each ordered pair of
        # fields as (small in-stream offset, huge length)
        for off, width, order in firsts:
            for val in (4096, 600 * KI, 2 ** 32 - 1, 2 ** 64 - 1):
                cases.append({'base': [fmt, {}], 'kind': 'hostile',
                              'edits': [[off, imggen.field_bytes(
                                  val, width, order).hex()]],
                              'extend': [3, 1700 * KI]})
        for (o1, w1, e1) in firsts:
            for (o2, w2, e2) in fields:
                if o1 == o2:
                    continue
                for v1 in (0, 4096):
                    for v2 in (2 ** (8 * w2) - 1, 8192):
                        cases.append({'base': [fmt, {}], 'kind': 'hostile',
                                      'edits': [[o1, imggen.field_bytes(
                                          v1, w1, e1).hex()],
                                          [o2, imggen.field_bytes(
                                              v2, w2, e2).hex()]],
                                      'extend': [3, 1700 * KI]})
    elif which.startswith('qcow2sem'):
        # qcow2 fields that belong together by the format document: a name /
        # table located by (offset, size) inside clusters of 2^cluster_bits
        all_bits = (0, 9, 16, 20, 21, 22, 63, 2 ** 32 - 1)
        for bits in (all_bits[int(which.split(':')[1])],):
            for off in (0, 104, 4096, 65536 + 8, 2 ** 20, 2 ** 63):
                for size in (0, 1, 1023, 1024, 600 * KI, MI, 2 * MI - 200,
                             2 ** 31, 2 ** 32 - 1):
                    cases.append({'base': ['qcow2', dict(
                        cluster_bits=bits, bf_offset=off, bf_size=size)],
                        'kind': 'hostile', 'extend': [3, 2200 * KI]})
    elif which == 'repeat':
        # a structure repeated far more often than any real image has it
        for n in (1, 16, 300, 700):
            for t in (0, 2, 3):
                for term in (True, False):
                    # descriptor set led by the primary descriptor, and led
                    # by a non-primary one (boot record / supplementary)
                    for first in (1, t):
                        cases.append({'base': ['iso', dict(
                            dtype=first, extra=n, extra_type=t,
                            terminator=term, tail=600 * KI)],
                            'kind': 'hostile'})
        many = tuple('ddb.key%d = "%s"' % (i, 'v' * 40) for i in range(3000))
        cases.append({'base': ['vmdk', dict(
            lines=('createType="monolithicSparse"',) + many +
            ('RW 1 SPARSE "d.vmdk"',), grain_data=1600 * KI)],
            'kind': 'hostile'})
        cases.append({'base': ['vhdx', dict(region_before=2045,
                                            region_after=0, meta_before=2045,
                                            meta_after=0, tail=700 * KI)],
                      'kind': 'hostile'})
    else:
        cases.append({'base': ['raw', dict(length=2 * MI + 100, kind='ascii',
                                           fill=3)], 'kind': 'text'})
        cases.append({'base': ['raw', dict(length=2 * MI, kind='zero')],
                      'kind': 'random'})
    for content in cases:
        from vcheck import imgstrat
        n = len(imgstrat.realize(content)[0])
        scheds = (['fixed', 65536], ['sizes', [n]], ['fixed', 4096])
        if which.startswith(('fields:', 'qcow2sem')):
            scheds = (['fixed', 512 * KI], ['sizes', [n]])
        for sched in scheds:
            check_bound(col, {'content': content, 'schedule': sched,
                              'wrapper': not which.startswith('fields:')},
                        sub)
    col.exhaustive.setdefault(sub, True)


def tasks(tier, seed):
    out = [Task('sweep', sweep, which=w) for w in
           ('vmdk', 'vhdx', 'other', 'repeat') +
           tuple('qcow2sem:%d' % i for i in range(8))]
    from vcheck import imggen
    for fmt in imggen.FORMATS:
        nf = len(imggen.FIELDS.get(fmt) or ())
        if nf and (tier == 'thorough' or nf <= 20):
            for i in range(nf):
                out.append(Task('sweep', sweep,
                                which='fields:%s:%d' % (fmt, i)))
    ex, shards = (30, 13) if tier == 'quick' else (500, 16)
    for i in range(shards):
        out.append(Task('bound', bound,
                        seed=core.derive_seed(seed, ID, 'bound', i),
                        max_examples=ex))
    if tier == 'thorough':
        from vcheck import fuzzrun
        for i, (kind, max_len) in enumerate(
                [('small', 40000)] * 8 + [('empty', 4096)] * 4 +
                [('vhdx', 340000)] * 4):
            out.append(Task('atheris', fuzzrun.campaign, target='c05',
                            seed=core.derive_seed(seed, ID, 'atheris', i),
                            runs=200000, max_len=max_len, seeds=kind,
                            max_time=170))
    return out


def replay(rec):
    check_bound(core.Collector(), rec['case'], rec.get('sub') or 'bound')
