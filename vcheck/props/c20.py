"""C20 - file helpers agree with whole-file semantics and are idempotent.

Differential against whole-content computation (hashlib over the bytes, slice
of the bytes, directory listing before/after) plus enumeration of every errno
raised by an injected os.makedirs / remove= callable.  File contents are a
SHAKE-256 stream of (content seed, size) so that a replay rebuilds them from
two integers and no two chunks of a file are equal.
"""

import contextlib
import errno
import hashlib
import os
import shutil
import tempfile

from vcheck import core
from vcheck.core import Task, Violation

ID = 'C20'
LEVEL = 'exploration'
BUDGET = {'quick': 45, 'thorough': 420}
# deterministic sub-checks repeated in a `python -O` child (core.optimized_child)
OPT_SUBS = ('fs', 'errno', 'last_bytes/family', 'tempfile/family')
# documented call interface the generated calls rely on (vcheck/callstyle.py)
INTERFACE = [('oslo_utils.fileutils', ['ensure_tree', 'delete_if_exists', 'write_to_tempfile', 'compute_file_checksum', 'last_bytes'])]
RULE = ('checksum: sizes {0,1,c-1,c,c+1,2c-1,2c,2c+1,3c} x chunk sizes c in '
        '{1,2,7,64,4096,65536, larger than the file, default} x 6 algorithms '
        'enumerated, plus random (size, chunk, algorithm); last_bytes: sizes '
        'around 0/1/io-buffer/64Ki x n in {0,1,size-1,size,size+1,2^40,2^62} '
        'enumerated plus random (size, n); write_to_tempfile: content x '
        'prefix/suffix x 0..3 missing directory levels x pre-existing files x '
        'default directory, called twice; ensure_tree / delete_if_exists on '
        'fresh / done / wrong-kind paths, twice; every errno of '
        'errno.errorcode (+ None, 0, -1, 99999) raised by an injected '
        'os.makedirs for path in {directory, file, missing} (directly and '
        'through write_to_tempfile) and by the remove= callable. Non-trivial: '
        'size not a multiple of the chunk size, or n within 1 of size, or an '
        'injected errno, or >= 1 missing directory level / pre-existing '
        'file; distinct by the argument tuple.')
ASSUMPTIONS = [
    'hashlib over the whole content is the reference digest',
    'scratch files live on a local file system where seeking before the '
    'start of a file fails with EINVAL (tmpfs / ext4)',
    'os.makedirs (module attribute of os) is what ensure_tree calls; guarded: '
    'if the injected callable is not invoked the case is counted as '
    'seam_unreachable, not judged',
    '"re-raise" is read as: the very exception object raised underneath '
    'propagates',
    'n < 0 and n >= 2^63 for last_bytes are not generated (unspecified)',
]

ALGS = ('md5', 'sha1', 'sha256', 'sha512', 'blake2b', 'sha3_256')
CHUNKS = (1, 2, 7, 64, 4096, 65536)


def blob(cseed, size):
    if size == 0:
        return b''
    return hashlib.shake_256(b'c20:%d' % cseed).digest(size)


def _shm_usable():
    d = '/dev/shm'
    return os.path.isdir(d) and os.access(d, os.W_OK | os.X_OK)


@contextlib.contextmanager
def scratch_dir():
    d = tempfile.mkdtemp(prefix='vcheck-c20-',
                         dir='/dev/shm' if _shm_usable() else None)
    try:
        yield d
    finally:
        shutil.rmtree(d, ignore_errors=True)


class Namer:
    """Fresh names inside the scratch directory (no RNG, no clock)."""

    def __init__(self, root):
        self.root = root
        self.n = 0

    def new(self, stem='f'):
        self.n += 1
        return os.path.join(self.root, '%s%06d' % (stem, self.n))

    def file(self, data, stem='f'):
        p = self.new(stem)
        with open(p, 'wb') as f:
            f.write(data)
        return p

    def dir(self, stem='d'):
        p = self.new(stem)
        os.mkdir(p)
        return p


def _bad(sub, msg, case):
    raise Violation(sub, msg, case)


# -- compute_file_checksum -------------------------------------------------------

def oracle_checksum(col, case, nm, sub='checksum', path=None, data=None):
    from oslo_utils import fileutils
    size, cseed = case['size'], case['cseed']
    chunk, alg = case['chunk'], case['alg']
    if data is None:
        data = blob(cseed, size)
    own = path is None
    if own:
        path = nm.file(data)
    try:
        kw = {}
        if chunk is not None:
            kw['read_chunksize'] = chunk
        if alg is not None:
            kw['algorithm'] = alg
        c = chunk or 65536
        if size == 0:
            cls = 'size=0'
        elif c > size:
            cls = 'chunk>size'
        elif size % c:
            cls = 'short-last-chunk'
        else:
            cls = 'exact-multiple'
        col.case(sub, (size, cseed, chunk, alg), size > 0 and size % c != 0,
                 (cls, 'alg/%s' % (alg or 'default'),
                  'chunk/%s' % (chunk if chunk in CHUNKS or chunk is None
                                else 'other')), case)
        want = hashlib.new(alg or 'sha256', data).hexdigest()
        try:
            got = fileutils.compute_file_checksum(path, **kw)
        except Exception as e:
            _bad(sub, 'compute_file_checksum(size=%d, %r) raised %r'
                 % (size, kw, e), case)
        if got != want:
            _bad(sub, 'compute_file_checksum(size=%d, %r) = %r, digest of the '
                 'whole content is %r' % (size, kw, got, want), case)
    finally:
        if own:
            os.unlink(path)


def checksum_algorithms(col):
    """Every algorithm name hashlib.algorithms_available offers (the
    docstring points there), in the spelling hashlib lists it."""
    from oslo_utils import fileutils
    sub = 'checksum/algorithms'
    data = blob(7, 70001)
    with scratch_dir() as root:
        nm = Namer(root)
        path = nm.file(data)
        for alg in sorted(hashlib.algorithms_available):
            try:
                h = hashlib.new(alg, data)
                want = h.hexdigest()
            except (TypeError, ValueError):
                continue        # needs a length (shake_*) or is unusable
            case = {'algorithm_name': alg, 'size': len(data)}
            col.case(sub, alg, True, 'alg/listed', case)
            try:
                got = fileutils.compute_file_checksum(path, 4096, alg)
            except Exception as e:
                _bad(sub, 'compute_file_checksum(algorithm=%r) raised %r'
                     % (alg, e), case)
            if got != want:
                _bad(sub, 'compute_file_checksum(algorithm=%r) = %r, '
                     'hashlib says %r' % (alg, got, want), case)
    col.exhaustive[sub] = True


def checksum_special(col):
    """Files whose stat size says nothing about their content: procfs
    entries (st_size 0) and a FIFO fed by a writer thread."""
    import threading
    from oslo_utils import fileutils
    sub = 'checksum/special'
    for path in ('/proc/version', '/proc/filesystems', '/proc/cpuinfo'):
        try:
            with open(path, 'rb') as f:
                data = f.read()
            with open(path, 'rb') as f:
                again = f.read()
        except OSError:
            continue
        if not data or data != again:
            continue            # not stable enough to serve as an oracle
        for chunk in (7, 4096, None):
            case = {'special': path, 'chunk': chunk}
            kw = {} if chunk is None else {'read_chunksize': chunk}
            col.case(sub, (path, chunk), True, 'procfs', case)
            try:
                got = fileutils.compute_file_checksum(path, **kw)
            except Exception as e:
                _bad(sub, 'compute_file_checksum(%r, %r) raised %r'
                     % (path, kw, e), case)
            if got != hashlib.sha256(data).hexdigest():
                _bad(sub, 'compute_file_checksum(%r, %r) is not the digest '
                     'of its %d bytes of content (st_size %d)'
                     % (path, kw, len(data), os.stat(path).st_size), case)
    with scratch_dir() as root:
        for k, size in enumerate((0, 1, 70000)):
            fifo = os.path.join(root, 'fifo%d' % k)
            os.mkfifo(fifo)
            data = blob(k + 1, size)

            def feed():
                with open(fifo, 'wb') as w:
                    for i in range(0, len(data), 5000):
                        w.write(data[i:i + 5000])

            th = threading.Thread(target=feed)
            th.start()
            case = {'special': 'fifo', 'size': size}
            got = None
            try:
                got = fileutils.compute_file_checksum(fifo,
                                                      read_chunksize=4096)
            except Exception as e:
                got = e
                # release the writer if the call never opened the FIFO
                try:
                    fd = os.open(fifo, os.O_RDONLY | os.O_NONBLOCK)
                    try:
                        while os.read(fd, 65536):
                            pass
                    except OSError:
                        pass
                    os.close(fd)
                except OSError:
                    pass
            finally:
                th.join(10)
            if isinstance(got, Exception):
                _bad(sub, 'checksum of a FIFO raised %r' % (got,), case)
            col.case(sub, ('fifo', size), True, 'fifo', case)
            if got != hashlib.sha256(data).hexdigest():
                _bad(sub, 'checksum of %d bytes read from a FIFO is not '
                     'their digest' % size, case)
    col.exhaustive.setdefault(sub, False)


def checksum_family(col, chunks):
    sub = 'checksum/family'
    with scratch_dir() as root:
        nm = Namer(root)
        for c in chunks:
            base = c if c != 'larger' else 1000
            sizes = sorted({0, 1, base - 1, base, base + 1, 2 * base - 1,
                            2 * base, 2 * base + 1, 3 * base})
            for size in sizes:
                if size < 0:
                    continue
                cseed = size * 31 + 7
                data = blob(cseed, size)
                path = nm.file(data)
                for alg in ALGS + (None,):
                    chunk = c if c != 'larger' else 3 * base + 5
                    oracle_checksum(col, {'size': size, 'cseed': cseed,
                                          'chunk': chunk, 'alg': alg},
                                    nm, sub, path, data)
                    if c == 65536:
                        # default read_chunksize
                        oracle_checksum(col, {'size': size, 'cseed': cseed,
                                              'chunk': None, 'alg': alg},
                                        nm, sub, path, data)
                os.unlink(path)
    col.exhaustive[sub] = True


def checksum_search(col, seed, max_examples):
    from hypothesis import strategies as st

    @st.composite
    def cases(draw):
        chunk = draw(st.one_of(st.sampled_from(CHUNKS), st.integers(1, 70000),
                               st.integers(1, 300)))
        k = draw(st.integers(0, 3))
        # at most ~4000 reads per case
        size = draw(st.one_of(
            st.integers(max(0, k * chunk - 2), k * chunk + 2),
            st.integers(0, min(200000, chunk * 4000))))
        size = min(size, 200000, chunk * 4000)
        return {'size': size, 'cseed': draw(st.integers(0, 2 ** 20)),
                'chunk': chunk, 'alg': draw(st.sampled_from(ALGS))}

    with scratch_dir() as root:
        nm = Namer(root)
        core.run_given(col, cases(),
                       lambda col, case: oracle_checksum(col, case, nm,
                                                         'checksum/random'),
                       seed, max_examples)


# -- last_bytes ---------------------------------------------------------------------

def oracle_last_bytes(col, case, nm, sub='last_bytes', path=None, data=None):
    from oslo_utils import fileutils
    size, cseed, n = case['size'], case['cseed'], case['n']
    if data is None:
        data = blob(cseed, size)
    own = path is None
    if own:
        path = nm.file(data)
    try:
        k = min(n, size)
        want = (data[size - k:], size - k)
        if n == 0:
            cls = 'n=0'
        elif n > size + 1:
            cls = 'n>size+1'
        elif n >= size - 1:
            cls = 'n=size%+d' % (n - size)
        else:
            cls = 'n<size-1'
        col.case(sub, (size, cseed, n), abs(n - size) <= 1,
                 (cls, 'size=0' if size == 0 else 'size>0'), case)
        try:
            got = fileutils.last_bytes(path, n)
        except Exception as e:
            _bad(sub, 'last_bytes(size=%d, %d) raised %r' % (size, n, e), case)
        ok = (isinstance(got, tuple) and len(got) == 2 and
              isinstance(got[0], bytes) and got[0] == want[0] and
              not isinstance(got[1], bool) and isinstance(got[1], int) and
              got[1] == want[1])
        if not ok:
            def show(t):
                try:
                    return '(%d bytes %s.., %r)' % (len(t[0]), t[0][:8].hex(),
                                                    t[1])
                except Exception:
                    return repr(t)[:200]
            _bad(sub, 'last_bytes(size=%d, %d) = %s, expected %s'
                 % (size, n, show(got), show(want)), case)
        with open(path, 'rb') as f:
            if f.read() != data:
                _bad(sub, 'last_bytes modified the file', case)
    finally:
        if own:
            os.unlink(path)


LB_SIZES = (0, 1, 2, 3, 7, 64, 4095, 4096, 4097, 8191, 8192, 8193, 16385,
            65535, 65536, 65537, 200001)


def last_bytes_family(col, sizes):
    sub = 'last_bytes/family'
    with scratch_dir() as root:
        nm = Namer(root)
        for size in sizes:
            cseed = size * 17 + 3
            data = blob(cseed, size)
            path = nm.file(data)
            ns = sorted({0, 1, size - 1, size, size + 1, 2 ** 40, 2 ** 62,
                         size // 2, 8192, 8193, size - 8192, 2 * size})
            for n in ns:
                if n < 0:
                    continue
                oracle_last_bytes(col, {'size': size, 'cseed': cseed, 'n': n},
                                  nm, sub, path, data)
            os.unlink(path)
    col.exhaustive[sub] = True


def last_bytes_search(col, seed, max_examples):
    from hypothesis import strategies as st

    @st.composite
    def cases(draw):
        size = draw(st.one_of(st.sampled_from(LB_SIZES[:-1]),
                              st.integers(0, 70000), st.integers(0, 300)))
        n = draw(st.one_of(
            st.integers(max(0, size - 2), size + 2),
            st.integers(0, size), st.integers(0, 2 ** 62),
            st.sampled_from([0, 1, 2 ** 31, 2 ** 32, 2 ** 62, 2 ** 63 - 1])))
        return {'size': size, 'cseed': draw(st.integers(0, 2 ** 20)), 'n': n}

    with scratch_dir() as root:
        nm = Namer(root)
        core.run_given(col, cases(),
                       lambda col, case: oracle_last_bytes(
                           col, case, nm, 'last_bytes/random'),
                       seed, max_examples)


# -- write_to_tempfile ----------------------------------------------------------------

def _listing(d):
    out = {}
    for name in os.listdir(d):
        p = os.path.join(d, name)
        if os.path.isfile(p):
            with open(p, 'rb') as f:
                out[name] = f.read()
        else:
            out[name] = None
    return out


def oracle_tempfile(col, case, nm, sub='tempfile'):
    from oslo_utils import fileutils
    content = bytes.fromhex(case['content_hex'])
    depth = case['depth']
    pre = case['pre']
    prefix, suffix = case['prefix'], case['suffix']
    default_dir = case['default_dir']
    base = nm.dir('t')
    saved_tempdir = tempfile.tempdir
    try:
        target = base
        for i in range(depth):
            target = os.path.join(target, 'lvl%d' % i)
        if depth == 0:
            for i in range(pre):
                name = (prefix if prefix is not None else 'tmp') + \
                    'old%d' % i + (suffix or '')
                with open(os.path.join(target, name), 'wb') as f:
                    f.write(b'old-%d' % i)
        before = _listing(target) if depth == 0 else {}
        kw = {}
        if default_dir:
            # path omitted: mkstemp's default directory (redirected here so
            # that nothing is left under the system temp directory)
            tempfile.tempdir = target
        else:
            kw['path'] = target
        if prefix is not None:
            kw['prefix'] = prefix
        if suffix is not None:
            kw['suffix'] = suffix
        wprefix = 'tmp' if prefix is None else prefix
        wsuffix = '' if suffix is None else suffix
        try:
            content.decode('utf-8')
            ccls = 'content/utf8' if content else 'content/empty'
        except UnicodeDecodeError:
            ccls = 'content/binary'
        col.case(sub, (case['content_hex'], depth, pre, prefix, suffix,
                       default_dir),
                 depth > 0 or pre > 0,
                 ('missing-levels/%d' % depth, 'pre-existing/%d' % min(pre, 3),
                  ccls, 'dir/default' if default_dir else 'dir/given',
                  'affixes/default' if prefix is None and suffix is None
                  else 'affixes/given'), case)
        got = []
        for call in (1, 2):
            try:
                p = fileutils.write_to_tempfile(content, **kw)
            except Exception as e:
                _bad(sub, 'write_to_tempfile(%r, %r) raised %r (call %d)'
                     % (content[:20], kw, e, call), case)
            if not isinstance(p, str):
                _bad(sub, 'write_to_tempfile returned %r' % (p,), case)
            if not os.path.isdir(target):
                _bad(sub, 'missing directories were not created: %r'
                     % (target,), case)
            d, name = os.path.split(os.path.abspath(p))
            if os.path.realpath(d) != os.path.realpath(target):
                _bad(sub, 'temp file %r is not in the requested directory %r'
                     % (p, target), case)
            if name in before or p in got:
                _bad(sub, 'write_to_tempfile reused an existing path %r' % (p,),
                     case)
            if not (name.startswith(wprefix) and name.endswith(wsuffix) and
                    len(name) >= len(wprefix) + len(wsuffix)):
                _bad(sub, 'temp file name %r lacks prefix %r / suffix %r'
                     % (name, wprefix, wsuffix), case)
            if not os.path.isfile(p):
                _bad(sub, 'returned path %r is not a file' % (p,), case)
            got.append(p)
            now = _listing(target)
            want = dict(before)
            for q in got:
                want[os.path.basename(q)] = content
            if now != want:
                diff = sorted(k for k in set(now) | set(want)
                              if now.get(k, 0) != want.get(k, 0))
                _bad(sub, 'directory content after call %d differs from '
                     '"old files untouched + new file(s) holding exactly the '
                     'content" at %r: new file holds %r'
                     % (call, diff, now.get(os.path.basename(p), b'')[:40]),
                     case)
        if depth > 0 and not default_dir:
            # history: the directories are removed from outside and the very
            # same call is made again - "creating missing directories first"
            # holds for every call, not only for the first one per path
            shutil.rmtree(os.path.join(base, 'lvl0'))
            try:
                p = fileutils.write_to_tempfile(content, **kw)
            except Exception as e:
                _bad(sub, 'write_to_tempfile(%r, %r) raised %r after the '
                     'directory it had created earlier was removed'
                     % (content[:20], kw, e), case)
            if not os.path.isfile(p) or os.path.realpath(
                    os.path.dirname(p)) != os.path.realpath(target):
                _bad(sub, 'after the directory was removed and the call '
                     'repeated, %r is not a file in %r' % (p, target), case)
            with open(p, 'rb') as f:
                if f.read() != content:
                    _bad(sub, 'repeated call wrote different content', case)
    finally:
        tempfile.tempdir = saved_tempdir
        shutil.rmtree(base, ignore_errors=True)


def concurrent_checksums(col, nthreads, rounds):
    """Several threads compute checksums of different files at the same
    time; every result must be the digest of its own file."""
    import threading
    from oslo_utils import fileutils
    sub = 'checksum/concurrent'
    with scratch_dir() as root:
        files = []
        for i in range(nthreads):
            size = 700000 + 65536 * i + i
            data = blob(1000 + i, size)
            path = os.path.join(root, 'f%d' % i)
            with open(path, 'wb') as f:
                f.write(data)
            files.append((path, size, hashlib.sha256(data).hexdigest(),
                          hashlib.md5(data).hexdigest()))  # nosec
        errors = []
        barrier = threading.Barrier(nthreads)

        def work(i):
            path, size, want256, want5 = files[i]
            barrier.wait()
            for r in range(rounds):
                for alg, want in (('sha256', want256), ('md5', want5)):
                    for chunk in (65536, 4096):
                        try:
                            got = fileutils.compute_file_checksum(
                                path, read_chunksize=chunk, algorithm=alg)
                        except Exception as e:     # noqa
                            got = 'raised %r' % (e,)
                        if got != want:
                            errors.append((i, size, alg, chunk, got, want))
                            return

        threads = [threading.Thread(target=work, args=(i,))
                   for i in range(nthreads)]
        for t in threads:
            t.start()
        for t in threads:
            t.join()
        col.case(sub, ('threads', nthreads, rounds), True, 'threads/%d'
                 % nthreads, {'threads': nthreads, 'rounds': rounds,
                              'files': [f[1] for f in files]})
        col.count(sub, nthreads * rounds * 4 - 1)
        if errors:
            i, size, alg, chunk, got, want = errors[0]
            raise Violation(sub, 'compute_file_checksum(file of %d bytes, '
                            'read_chunksize=%d, %s) = %s while %d other '
                            'threads were checksumming other files; digest '
                            'of the content is %s' % (size, chunk, alg, got,
                                                      nthreads - 1, want),
                            {'concurrent': True, 'threads': nthreads,
                             'rounds': rounds})


TEMP_CONTENTS = (b'', b'x', b'line\n', b'a\r\nb\r\n', b'\x00', b'\xff\xfe\x00',
                 b'caf\xc3\xa9', b'\xc3', b'[DEFAULT]\nkey = value\n',
                 bytes(range(256)))


def tempfile_family(col):
    sub = 'tempfile/family'
    with scratch_dir() as root:
        nm = Namer(root)
        for content in TEMP_CONTENTS:
            for depth in range(4):
                for pre in ((0, 2) if depth == 0 else (0,)):
                    for prefix, suffix in ((None, None), ('cfg-', '.conf'),
                                           ('', ''), ('tmp', '.tmp')):
                        for default_dir in ((False, True) if depth == 0
                                            else (False,)):
                            oracle_tempfile(col, {
                                'content_hex': content.hex(), 'depth': depth,
                                'pre': pre, 'prefix': prefix, 'suffix': suffix,
                                'default_dir': default_dir}, nm, sub)
    col.exhaustive[sub] = True


def tempfile_search(col, seed, max_examples):
    from hypothesis import strategies as st
    names = st.text(alphabet=st.sampled_from(
        list('abcXYZ019._- ~+,=') + ['\xe9', '中']), max_size=8)
    content = st.one_of(st.sampled_from(TEMP_CONTENTS), st.binary(max_size=64),
                        st.binary(min_size=1000, max_size=5000))
    cases = st.fixed_dictionaries({
        'content_hex': content.map(bytes.hex),
        'depth': st.integers(0, 3), 'pre': st.integers(0, 4),
        'prefix': st.one_of(st.none(), names),
        'suffix': st.one_of(st.none(), names),
        'default_dir': st.booleans()}).map(
            lambda c: dict(c, default_dir=c['default_dir'] and c['depth'] == 0,
                           pre=c['pre'] if c['depth'] == 0 else 0))
    with scratch_dir() as root:
        nm = Namer(root)
        core.run_given(col, cases,
                       lambda col, case: oracle_tempfile(col, case, nm,
                                                         'tempfile/random'),
                       seed, max_examples)


# -- ensure_tree / delete_if_exists on the real file system -----------------------------

def oracle_fs(col, case, nm, sub='fs'):
    from oslo_utils import fileutils
    op, state = case['op'], case['state']
    base = nm.dir('e')
    try:
        if op == 'ensure_tree':
            depth = case.get('depth', 1)
            if state == 'fresh':
                path = os.path.join(base, *['n%d' % i for i in range(depth)])
            elif state == 'dir':
                path = os.path.join(base, 'd')
                os.mkdir(path)
            elif state in ('link-to-dir', 'dir-via-link'):
                # the work is already done when the path names a directory
                # through a symlink (last component, or a parent)
                os.makedirs(os.path.join(base, 'real', 'sub'))
                os.symlink(os.path.join(base, 'real'),
                           os.path.join(base, 'lnk'))
                path = os.path.join(base, 'lnk') if state == 'link-to-dir' \
                    else os.path.join(base, 'lnk', 'sub')
            elif state == 'file':
                path = os.path.join(base, 'f')
                with open(path, 'wb') as f:
                    f.write(b'keep')
            elif state == 'parent-file':
                with open(os.path.join(base, 'f'), 'wb') as f:
                    f.write(b'keep')
                path = os.path.join(base, 'f', 'sub')
            else:
                raise core.HarnessError('bad state %r' % (state,))
            arg = path + '/' if case.get('slash') else path
            col.case(sub, (op, state, depth, bool(case.get('slash'))),
                     True, '%s/%s' % (op, state), case)
            for call in (1, 2):
                try:
                    fileutils.ensure_tree(arg)
                    out = 'ok'
                except OSError as e:
                    out = e
                except Exception as e:
                    _bad(sub, 'ensure_tree raised %r' % (e,), case)
                if state in ('fresh', 'dir', 'link-to-dir', 'dir-via-link'):
                    if out != 'ok':
                        _bad(sub, 'ensure_tree(%s path) raised %r on call %d'
                             % (state, out, call), case)
                    if not os.path.isdir(path):
                        _bad(sub, 'ensure_tree did not create %r' % (path,),
                             case)
                else:
                    if out == 'ok':
                        _bad(sub, 'ensure_tree succeeded although %s'
                             % ('the path is an existing regular file'
                                if state == 'file' else
                                'a parent of the path is a regular file'),
                             case)
                    want = errno.EEXIST if state == 'file' else errno.ENOTDIR
                    if out.errno != want:
                        col.unspec(sub, 'errno of the propagated error')
                    with open(os.path.join(base, 'f'), 'rb') as f:
                        if f.read() != b'keep':
                            _bad(sub, 'ensure_tree damaged the file', case)
            return
        if op == 'delete_if_exists':
            if state == 'file':
                path = os.path.join(base, 'f')
                with open(path, 'wb') as f:
                    f.write(b'x')
            elif state == 'missing':
                path = os.path.join(base, 'nothing')
            elif state == 'missing-parent':
                path = os.path.join(base, 'no', 'thing')
            elif state == 'dir':
                path = os.path.join(base, 'd')
                os.mkdir(path)
            elif state == 'parent-file':
                with open(os.path.join(base, 'f'), 'wb') as f:
                    f.write(b'x')
                path = os.path.join(base, 'f', 'sub')
            elif state == 'symlink':
                with open(os.path.join(base, 'f'), 'wb') as f:
                    f.write(b'x')
                path = os.path.join(base, 'lnk')
                os.symlink(os.path.join(base, 'f'), path)
            elif state == 'via-link-dotdot':
                # top/current/../name with current -> volumes/pool: the file
                # is volumes/name; top/name is a bystander
                os.makedirs(os.path.join(base, 'volumes', 'pool'))
                os.makedirs(os.path.join(base, 'top'))
                os.symlink(os.path.join(base, 'volumes', 'pool'),
                           os.path.join(base, 'top', 'current'))
                path = os.path.join(base, 'top', 'current', '..', 'name')
                for pth in (path, os.path.join(base, 'top', 'name')):
                    with open(pth, 'wb') as f:
                        f.write(b'x')
            else:
                raise core.HarnessError('bad state %r' % (state,))
            col.case(sub, (op, state), True, '%s/%s' % (op, state), case)
            for call in (1, 2):
                try:
                    fileutils.delete_if_exists(path)
                    out = 'ok'
                except OSError as e:
                    out = e
                except Exception as e:
                    _bad(sub, 'delete_if_exists raised %r' % (e,), case)
                if state in ('file', 'missing', 'missing-parent', 'symlink',
                             'via-link-dotdot'):
                    if out != 'ok':
                        _bad(sub, 'delete_if_exists(%s) raised %r on call %d'
                             % (state, out, call), case)
                    if os.path.lexists(path):
                        _bad(sub, 'delete_if_exists left %r behind' % (path,),
                             case)
                    if state == 'symlink' and not os.path.isfile(
                            os.path.join(base, 'f')):
                        _bad(sub, 'delete_if_exists removed the link target',
                             case)
                    if state == 'via-link-dotdot' and not os.path.isfile(
                            os.path.join(base, 'top', 'name')):
                        _bad(sub, 'delete_if_exists removed another file '
                             '(lexically normalised path)', case)
                else:
                    if out == 'ok':
                        _bad(sub, 'delete_if_exists(%s) swallowed the error of '
                             'os.unlink' % (state,), case)
                    if out.errno == errno.ENOENT:
                        col.unspec(sub, 'platform reports ENOENT')
                    if state == 'dir' and not os.path.isdir(path):
                        _bad(sub, 'delete_if_exists removed a directory', case)
            return
        raise core.HarnessError('bad op %r' % (op,))
    finally:
        shutil.rmtree(base, ignore_errors=True)


def fs_family(col):
    sub = 'fs'
    with scratch_dir() as root:
        nm = Namer(root)
        for slash in (False, True):
            for depth in (1, 2, 3, 4, 8):
                oracle_fs(col, {'op': 'ensure_tree', 'state': 'fresh',
                                'depth': depth, 'slash': slash}, nm, sub)
            oracle_fs(col, {'op': 'ensure_tree', 'state': 'dir',
                            'slash': slash}, nm, sub)
            for st_ in ('link-to-dir', 'dir-via-link'):
                oracle_fs(col, {'op': 'ensure_tree', 'state': st_,
                                'slash': slash}, nm, sub)
        oracle_fs(col, {'op': 'ensure_tree', 'state': 'file'}, nm, sub)
        oracle_fs(col, {'op': 'ensure_tree', 'state': 'parent-file'}, nm, sub)
        for state in ('file', 'missing', 'missing-parent', 'dir',
                      'parent-file', 'symlink', 'via-link-dotdot'):
            oracle_fs(col, {'op': 'delete_if_exists', 'state': state}, nm, sub)
    col.exhaustive[sub] = True


# -- errno injection -------------------------------------------------------------------------

def all_errnos():
    return sorted(errno.errorcode) + [None, 0, -1, 99999]


class DriverError(OSError):
    """an OSError subclass of some driver or wrapper (not one of the
    interpreter's errno-mapped classes)"""


def _make_exc(e, flavour=None):
    """flavour None: OSError(errno, msg), which the interpreter maps onto
    FileNotFoundError / FileExistsError / ...; 'subclass': the same errno on
    a foreign OSError subclass; 'late': errno assigned after construction
    (a wrapper re-raising); both keep the class away from the mapped one."""
    if e is None:
        return OSError('injected without errno')
    try:
        msg = os.strerror(e)
    except (ValueError, OverflowError):
        msg = 'injected'
    if flavour == 'subclass':
        return DriverError(e, msg)
    if flavour == 'late':
        x = OSError(msg)
        x.errno = e
        return x
    return OSError(e, msg)


def oracle_errno(col, case, nm, sub='errno'):
    from oslo_utils import fileutils
    target, e, state = case['target'], case['errno'], case.get('state')
    exc = _make_exc(e, case.get('flavour'))
    name = errno.errorcode.get(e, str(e))
    base = nm.dir('x')
    calls = []
    try:
        if state == 'dir':
            path = base
        elif state == 'file':
            path = os.path.join(base, 'f')
            with open(path, 'wb') as f:
                f.write(b'keep')
        else:
            path = os.path.join(base, 'missing')

        def fake(*a, **kw):
            calls.append(a)
            if case.get('competitor'):
                # somebody else gets there first: by the time the error is
                # raised the work has been done by another process
                if target == 'remove':
                    if os.path.lexists(a[0]):
                        os.unlink(a[0])
                elif not os.path.lexists(a[0]):
                    saved(a[0])
            raise exc

        interesting = e in (errno.EEXIST, errno.ENOENT, errno.EINVAL,
                            errno.EACCES, errno.EPERM, errno.ENOTDIR,
                            errno.EISDIR, None)
        col.case(sub, (target, e, state), True,
                 ('%s/%s' % (target, state or '-'),
                  'errno/%s' % (name if interesting else 'other')), case)
        saved = os.makedirs
        try:
            if target in ('makedirs', 'tempfile'):
                os.makedirs = fake
            try:
                if target == 'makedirs':
                    fileutils.ensure_tree(path)
                elif target == 'tempfile':
                    made = fileutils.write_to_tempfile(b'data', path=path)
                else:
                    fileutils.delete_if_exists(path, remove=fake)
                out = None
            except Exception as caught:
                out = caught
        finally:
            os.makedirs = saved
        if not calls:
            col.seam(sub, 'os.makedirs' if target != 'remove' else 'remove=')
            return
        if target == 'remove':
            if len(calls) != 1 or calls[0] != (path,):
                _bad(sub, 'remove callable called with %r' % (calls,), case)
            swallow = e == errno.ENOENT
        elif case.get('competitor'):
            swallow = e == errno.EEXIST and state in ('dir', 'missing')
        else:
            swallow = e == errno.EEXIST and state == 'dir'
        if swallow:
            if out is not None:
                _bad(sub, '%s: injected %s should be swallowed (%s), got %r'
                     % (target, name, 'path is a directory'
                        if target != 'remove' else 'not found', out), case)
            if target == 'tempfile':
                with open(made, 'rb') as f:
                    if f.read() != b'data' or os.path.dirname(made) != path:
                        _bad(sub, 'temp file wrong after swallowed EEXIST',
                             case)
        else:
            if out is None:
                _bad(sub, '%s: injected OSError(%s) with path state %r was '
                     'swallowed' % (target, name, state), case)
            if out is not exc:
                _bad(sub, '%s: injected OSError(%s) did not propagate '
                     'unchanged, got %r' % (target, name, out), case)
            if target == 'tempfile' and state == 'dir' and os.listdir(path):
                _bad(sub, 'a temp file was created although creating the '
                     'directory failed', case)
    finally:
        shutil.rmtree(base, ignore_errors=True)


def errno_family(col, target):
    sub = 'errno'
    with scratch_dir() as root:
        nm = Namer(root)
        for e in all_errnos():
            if target == 'remove':
                for state in ('file', 'missing'):
                    oracle_errno(col, {'target': target, 'errno': e,
                                       'state': state}, nm, sub)
            else:
                for state in ('dir', 'file', 'missing'):
                    if target == 'tempfile' and state == 'file':
                        continue
                    oracle_errno(col, {'target': target, 'errno': e,
                                       'state': state}, nm, sub)
        # the errnos the filters look at, on exception objects of other
        # classes, and with a competitor doing the work in the meantime
        for e in (errno.ENOENT, errno.EEXIST, errno.EACCES, errno.ENOTDIR):
            for flavour in (None, 'subclass', 'late'):
                for comp in (False, True):
                    if flavour is None and not comp:
                        continue
                    states = ('file', 'missing') if target == 'remove' \
                        else ('dir', 'missing')
                    for state in states:
                        oracle_errno(col, {'target': target, 'errno': e,
                                           'state': state, 'flavour': flavour,
                                           'competitor': comp}, nm, sub)
    col.exhaustive[sub] = True


def concurrent_ensure(col, nthreads, rounds):
    """Schedules: several threads ensure the same new tree (directly and
    through write_to_tempfile) at the same moment; all must succeed."""
    import sys
    import threading
    from oslo_utils import fileutils
    sub = 'ensure/concurrent'
    saved = sys.getswitchinterval()
    sys.setswitchinterval(1e-6)
    try:
        with scratch_dir() as root:
            for r in range(rounds):
                path = os.path.join(root, 'r%d' % r, 'a', 'b', 'c')
                barrier = threading.Barrier(nthreads)
                errs = [None] * nthreads
                use_tmp = bool(r % 2)

                def work(i):
                    barrier.wait()
                    try:
                        if use_tmp:
                            p = fileutils.write_to_tempfile(
                                b'data%d' % i, path=path)
                            with open(p, 'rb') as f:
                                if f.read() != b'data%d' % i:
                                    errs[i] = 'wrong content'
                        else:
                            fileutils.ensure_tree(path)
                    except BaseException as e:
                        errs[i] = repr(e)

                ths = [threading.Thread(target=work, args=(i,))
                       for i in range(nthreads)]
                for t in ths:
                    t.start()
                for t in ths:
                    t.join()
                case = {'concurrent_ensure': nthreads, 'round': r,
                        'via': 'write_to_tempfile' if use_tmp
                        else 'ensure_tree'}
                col.case(sub, (r,), True, 'via/' + case['via'], case)
                bad = [e for e in errs if e]
                if bad or not os.path.isdir(path):
                    _bad(sub, '%d threads creating the same new tree via %s: '
                         '%r' % (nthreads, case['via'], bad[:3]), case)
    finally:
        sys.setswitchinterval(saved)
    col.exhaustive.setdefault(sub, False)


# -- entry points ---------------------------------------------------------------------------------

def tasks(tier, seed):
    if tier == 'quick':
        n, shards = 800, 2
    else:
        n, shards = 4000, 3
    out = []
    for c in CHUNKS + ('larger',):
        out.append(Task('checksum/family', checksum_family, chunks=(c,)))
    out.append(Task('last_bytes/family', last_bytes_family, sizes=LB_SIZES[:9]))
    out.append(Task('last_bytes/family', last_bytes_family, sizes=LB_SIZES[9:]))
    out.append(Task('tempfile/family', tempfile_family))
    out.append(Task('checksum/concurrent', concurrent_checksums, nthreads=6,
                    rounds=3 if tier == 'quick' else 20))
    out.append(Task('fs', fs_family))
    out.append(Task('ensure/concurrent', concurrent_ensure, nthreads=8,
                    rounds=30 if tier == 'quick' else 300))
    out.append(Task('checksum/special', checksum_special))
    out.append(Task('checksum/algorithms', checksum_algorithms))
    for target in ('makedirs', 'tempfile', 'remove'):
        out.append(Task('errno', errno_family, target=target))
    for i in range(shards):
        out.append(Task('checksum/random', checksum_search,
                        seed=core.derive_seed(seed, ID, 'checksum', i),
                        max_examples=n))
        out.append(Task('last_bytes/random', last_bytes_search,
                        seed=core.derive_seed(seed, ID, 'last_bytes', i),
                        max_examples=2 * n))
        out.append(Task('tempfile/random', tempfile_search,
                        seed=core.derive_seed(seed, ID, 'tempfile', i),
                        max_examples=n))
    return out


def replay(rec):
    case = rec['case']
    sub = rec.get('sub', '')
    col = core.Collector()
    if case.get('concurrent'):
        return concurrent_checksums(col, case['threads'], case['rounds'])
    if case.get('concurrent_ensure'):
        return concurrent_ensure(col, case['concurrent_ensure'],
                                 case['round'] + 1)
    if case.get('special'):
        return checksum_special(col)
    if case.get('algorithm_name'):
        return checksum_algorithms(col)
    with scratch_dir() as root:
        nm = Namer(root)
        if 'chunk' in case:
            return oracle_checksum(col, case, nm, sub or 'checksum')
        if 'n' in case:
            return oracle_last_bytes(col, case, nm, sub or 'last_bytes')
        if 'content_hex' in case:
            return oracle_tempfile(col, case, nm, sub or 'tempfile')
        if 'target' in case:
            return oracle_errno(col, case, nm, sub or 'errno')
        return oracle_fs(col, case, nm, sub or 'fs')
