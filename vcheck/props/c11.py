"""C11 - address validators accept exactly well-formed values and never raise.

Grammar generators (exhaustive boundary families + Hypothesis) produce strings
at and around the validity boundary of every family; each string is put to
*all* validators.  The reference verdict comes from the standard library's
address parser (ipaddress) plus small models written from the statement and
the docstrings (scope length, missing/empty prefix, colon-separated MAC,
integer ranges, the documented a / a.b / a.b.c IPv4 "address format").  The
oracle is three-valued: True / False / None (unspecified, only "no exception").
"""

import ipaddress
import re

from vcheck import argtypes
from vcheck import core
from vcheck.core import Task, Violation

ID = 'C11'
LEVEL = 'exploration'
BUDGET = {'quick': 45, 'thorough': 420}
# deterministic sub-checks repeated in a `python -O` child (core.optimized_child)
OPT_SUBS = ('mac/family', 'int/odd', 'badchar/family', 'confusable/family', 'ipv4/family', 'ipv6/family', 'cidr/family', 'int/range')
# sub-checks repeated with str / int arguments as subclass instances
SUBCLASS_SUBS = ('mac/family', 'int/odd', 'badchar/family', 'ipv4/family#1', 'ipv6/family#1', 'cidr/family#1', 'int/range#1')
# documented call interface the generated calls rely on (vcheck/callstyle.py)
INTERFACE = [('oslo_utils.netutils', ['is_valid_ipv4', 'is_valid_ipv6', 'is_valid_cidr', 'is_valid_ipv6_cidr', 'is_valid_ip', 'is_valid_mac', 'is_valid_port', 'is_valid_icmp_type', 'is_valid_icmp_code'])]
RULE = ('Strings from address grammars - dotted quads with 1..5 parts over a '
        '34-spelling part alphabet (octets -1..300, range ends of the 1..3 '
        'part forms, leading zeros, hex/octal, signs, non-ASCII digits); IPv6 '
        'with 0..9 groups, every :: position, embedded IPv4 tails, scope ids '
        'of length 0..17, doubled %, / inside the scope; CIDRs = 24 address '
        'spellings x (every prefix length -1..129, empty/doubled/extra '
        'slashes, netmask/hostmask forms, signs, padding, underscores, '
        'non-ASCII digits, scope inside); MACs with 1..8 groups x 7 '
        'separators x affixes incl. trailing newline; every integer of '
        '-1000..70000 as int and str plus non-canonical spellings for the '
        'port/ICMP validators; printable text, address-alphabet noise and '
        'NUL/lone-surrogate insertions - each string is put to all 11 '
        'validators (strict/non-strict IPv4, IPv6, IP, CIDR, IPv6 CIDR, MAC, '
        'port, ICMP type/code) and judged against ipaddress plus the '
        'statement models. Non-trivial: the string is valid for at least one '
        'validator or lies one edit from a valid one (one bad part, one part '
        'too many/few, prefix 33/129, scope length 0/16, port 65536, second '
        'slash). Distinct by string (x 11 validators).')
ASSUMPTIONS = [
    'ipaddress (Python 3.12) is the reference address parser: '
    'IPv4Address / IPv6Address / ip_interface',
    'scope ids are at most 15 characters (interface-name limit used by the '
    'code and DESIGN); scope ids with characters outside printable '
    'non-space ASCII are not judged',
    'inet_aton spellings beyond the documented decimal a, a.b, a.b.c, a.b.c.d '
    '(hex, octal, trailing whitespace) are not judged for the non-strict '
    'IPv4 / is_valid_ip validators',
    'port / ICMP strings that int() accepts but that are not canonical '
    'decimal (-?(0|[1-9][0-9]*)) are not judged',
]

HEX = set('0123456789abcdefABCDEF')
FNS = ('ipv4', 'ipv4_strict_kw', 'ipv4_loose', 'ipv6', 'ip', 'cidr',
       'ipv6_cidr', 'mac', 'port', 'icmp_type', 'icmp_code')

# -- known findings -----------------------------------------------------------
# name -> status ('open' | 'fixed' | None = proposed, not merged yet).  A class
# is routed (not judged beyond what is still certain) unless its entry in
# known_findings.json says "fixed".
F_RAISES = 'address_validator_raises_valueerror'       # F-i
F_LENIENT = 'cidr_lenient_prefix_spelling'             # F-j
F_MACNL = 'mac_trailing_newline'                       # F-k
F_SCOPESLASH = 'ipv6_scope_with_slash'                 # F-n
_STATUS = None


def finding_status(name):
    """Status of the finding whose predicate is `name`.

    VERIF_ASSUME_FIXED=<name>[,<name>...] (or "all") treats findings as fixed
    for one run: used to try a proposed repair on a scratch copy
    (VERIF_REPO=<copy>) before known_findings.json is updated."""
    global _STATUS
    if _STATUS is None:
        import os
        _STATUS = {}
        for e in core.load_known_findings(ID):
            _STATUS[e.get('match')] = e.get('status')
        assume = os.environ.get('VERIF_ASSUME_FIXED', '')
        for n in assume.split(','):
            n = n.strip()
            if n == 'all':
                for k in (F_RAISES, F_LENIENT, F_MACNL, F_SCOPESLASH):
                    _STATUS[k] = 'fixed'
            elif n:
                _STATUS[n] = 'fixed'
    return _STATUS.get(name)


def routed(name):
    return finding_status(name) != 'fixed'


# -- reference models ---------------------------------------------------------

def r4(s):
    try:
        ipaddress.IPv4Address(s)
        return True
    except ValueError:
        return False


def r6(s):
    """IPv6 address without scope, per the standard library."""
    if '%' in s:
        return False
    try:
        ipaddress.IPv6Address(s)
        return True
    except ValueError:
        return False


def has_nul_or_surrogate(s):
    return any(c == '\x00' or 0xD800 <= ord(c) <= 0xDFFF for c in s)


def plain_scope(scope):
    return all(0x21 <= ord(c) <= 0x7e and c not in '%/' for c in scope)


def v6_verdict(s):
    """(want, finding) for is_valid_ipv6."""
    if not s:
        return False, None
    if '%' not in s:
        return r6(s), None
    addr, scope = s.rsplit('%', 1)
    if not r6(addr):
        return False, None
    if len(scope) < 1 or len(scope) > 15:
        return False, None            # statement: empty / over-long scope id
    if '/' in scope:
        # the standard library rejects it (that is address%zone/prefix)
        return False, F_SCOPESLASH
    if plain_scope(scope):
        return True, None
    return None, None


_DEC = re.compile(r'(0|[1-9][0-9]*)\Z', re.ASCII)
_OCT = re.compile(r'0[0-7]+\Z', re.ASCII)
_HEXP = re.compile(r'0[xX][0-9a-fA-F]+\Z', re.ASCII)


def aton_verdict(s):
    """is_valid_ipv4(strict=False): True for the documented decimal forms,
    False where no inet_aton accepts, None for lenient spellings."""
    if not s:
        return False
    if r4(s):
        return True
    if any(c.isspace() or ord(c) < 0x20 or ord(c) == 0x7f for c in s):
        return None
    parts = s.split('.')
    if not 1 <= len(parts) <= 4:
        return False
    lenient = False
    vals = []
    for p in parts:
        if _DEC.match(p):
            vals.append(int(p))
        elif _OCT.match(p):
            vals.append(int(p, 8))
            lenient = True
        elif _HEXP.match(p):
            vals.append(int(p, 16))
            lenient = True
        elif re.match(r'0[0-9]+\Z', p, re.ASCII) or p in ('0x', '0X'):
            return None               # libc-dependent corner
        else:
            return False
    if any(v > 255 for v in vals[:-1]):
        return False
    if vals[-1] >= 256 ** (5 - len(parts)):
        return False
    return None if lenient else True


def _ref_interface(s, v6only=False):
    try:
        if v6only:
            ipaddress.IPv6Interface(s)
        else:
            ipaddress.ip_interface(s)
        return True
    except ValueError:
        return False


def lenient_prefix(addr, p):
    """F-j: prefix spellings a lenient parser reads as an in-range length or
    (IPv6) an address-form mask although the standard library rejects them."""
    if r4(addr):
        maxp = 32
    elif r6(addr):
        maxp = 128
    else:
        return False
    if has_nul_or_surrogate(p):
        return False
    try:
        v = int(p)
        if 0 <= v <= maxp:
            return True
    except ValueError:
        pass
    return maxp == 128 and r6(p)


def cidr_verdict(s, v6only):
    """(want, finding) for is_valid_cidr / is_valid_ipv6_cidr."""
    n = s.count('/')
    if n == 0:
        if v6only and r6(s):
            return None, None         # bare IPv6 address: pinned as accepted
        if v6only and '%' in s and v6_verdict(s)[0] is not False:
            return None, None
        return False, None            # statement: missing prefix
    if n >= 2:
        return False, F_RAISES
    addr, p = s.split('/')
    if p == '' or addr == '':
        return False, None            # statement: empty prefix
    if v6only and r4(addr):
        return False, None
    if _ref_interface(s, v6only):
        if '%' in addr:
            return None, None         # scope id inside a CIDR: not judged
        return True, None
    if lenient_prefix(addr, p):
        return False, F_LENIENT
    return False, None


def mac_verdict(s):
    parts = s.split(':')
    if len(parts) == 6 and all(len(p) == 2 and set(p) <= HEX for p in parts):
        return True, None
    if s.endswith('\n') and mac_verdict(s[:-1])[0]:
        return False, F_MACNL
    return False, None


_CANON_INT = re.compile(r'-?(0|[1-9][0-9]*)\Z', re.ASCII)


def int_verdict(v, lo, hi, none_ok=False):
    if v is None:
        return none_ok
    if isinstance(v, bool):
        return None
    if isinstance(v, int):
        return lo <= v <= hi
    if isinstance(v, str):
        if _CANON_INT.match(v) and v != '-0':
            if len(v) > 20:
                return False
            return lo <= int(v) <= hi
        try:
            int(v)
        except ValueError:
            return False              # not a number in any spelling
        return None                   # +80, ' 80', 8_0, 080, non-ASCII digits
    return None


def verdicts(s):
    """fn -> (want, tuple of finding classes) for a str argument."""
    out = {}
    strict = r4(s)
    out['ipv4'] = (strict, None)
    out['ipv4_strict_kw'] = (strict, None)
    loose = aton_verdict(s)
    out['ipv4_loose'] = (loose, None)
    v6, f6 = v6_verdict(s)
    out['ipv6'] = (v6, f6)
    if loose is True or (v6 is True):
        ip = True
    elif loose is False and v6 is False:
        ip = False
    else:
        ip = None
    out['ip'] = (ip, f6 if loose is False else None)
    out['cidr'] = cidr_verdict(s, False)
    out['ipv6_cidr'] = cidr_verdict(s, True)
    out['mac'] = mac_verdict(s)
    out['port'] = (int_verdict(s, 0, 65535), None)
    out['icmp_type'] = (int_verdict(s, 0, 255), None)
    out['icmp_code'] = (int_verdict(s, 0, 255, True), None)
    out = {fn: (w, (f,) if f else ()) for fn, (w, f) in out.items()}
    if has_nul_or_surrogate(s):
        # want stays what the models say (False for every such string
        # except inside a scope id, which no parser looks into)
        for fn in ('ipv4', 'ipv4_strict_kw', 'ipv4_loose', 'ipv6', 'ip',
                   'cidr', 'ipv6_cidr'):
            want, fs = out[fn]
            if F_RAISES not in fs:
                out[fn] = (want, fs + (F_RAISES,))
    return out


def _funcs():
    from oslo_utils import netutils as n
    return {
        'ipv4': n.is_valid_ipv4,
        'ipv4_strict_kw': lambda a: n.is_valid_ipv4(a, strict=True),
        'ipv4_loose': lambda a: n.is_valid_ipv4(a, strict=False),
        'ipv6': n.is_valid_ipv6, 'ip': n.is_valid_ip,
        'cidr': n.is_valid_cidr, 'ipv6_cidr': n.is_valid_ipv6_cidr,
        'mac': n.is_valid_mac, 'port': n.is_valid_port,
        'icmp_type': n.is_valid_icmp_type, 'icmp_code': n.is_valid_icmp_code,
    }


def judge(col, sub, fn, arg, want, findings, got):
    """got = ('ok', value) | ('err', exc).  Raises Violation."""
    case = {'fn': fn, 'arg': arg}
    live = [f for f in findings if routed(f)]
    if live:
        for f in live:
            col.known(sub, f)
        # what is certain even while the findings are open: no exception
        # other than the escaping ValueError, and - when that is the only
        # finding - never truthy for a must-reject string
        if got[0] == 'err':
            if F_RAISES not in live or not isinstance(got[1], ValueError):
                raise Violation(sub, '%s(%r) raised %r'
                                % (fn, arg, got[1]), case)
        elif live == [F_RAISES] and want is False and got[1]:
            raise Violation(sub, '%s(%r) is truthy' % (fn, arg), case)
        return
    if got[0] == 'err':
        raise Violation(sub, '%s(%r) raised %r instead of answering'
                        % (fn, arg, got[1]), case)
    if want is None:
        col.unspec(sub, fn)
        return
    if bool(got[1]) != want:
        raise Violation(sub, '%s(%r) -> %r, expected %s'
                        % (fn, arg, got[1], want), case)


def _call(f, a):
    try:
        return ('ok', f(argtypes.maybe(a)))
    except Exception as e:      # noqa - any exception class is the finding
        return ('err', e)


def check_string(col, sub, s, cls=None, nontrivial=None, funcs=None,
                 expect_valid=None):
    """Put one string to every validator."""
    funcs = funcs or _funcs()
    v = verdicts(s)
    if expect_valid is not None:
        for fn in expect_valid:
            if v[fn][0] is not True:
                raise core.HarnessError(
                    'generator says %r is a valid %s, the reference says %r'
                    % (s, fn, v[fn]))
    if nontrivial is None:
        nontrivial = any(w is True for w, _f in v.values())
    col.case(sub, s, nontrivial, cls, {'arg': s})
    first = None
    for fn in FNS:
        want, findings = v[fn]
        got = _call(funcs[fn], s)
        try:
            judge(col, sub, fn, s, want, findings, got)
        except Violation as e:
            if first is None:
                first = e
    if first is not None:
        raise first


# -- IPv4 grammar -------------------------------------------------------------

P4 = ['0', '1', '9', '10', '99', '100', '199', '200', '249', '250', '255',
      '256', '300', '-1', '01', '001', '00', '0x1', '0xff', '0x100', '017',
      '0377', '08', '', '65535', '65536', '16777215', '16777216',
      '4294967295', '4294967296', '+1', '1e1', '١', 'a']
P4_GOOD = set(P4[:11])
S4 = ['0', '1', '255', '10']


def ipv4_family(col, length):
    """One free part over P4 at every position, the others over a small set
    of valid octets."""
    import itertools
    sub = 'ipv4/family'
    funcs = _funcs()
    others = S4 if length <= 4 else ['1', '255']
    seen = set()
    for pos in range(length):
        for part in P4:
            for rest in itertools.product(others, repeat=length - 1):
                parts = list(rest[:pos]) + [part] + list(rest[pos:])
                s = '.'.join(parts)
                if s in seen:
                    continue
                seen.add(s)
                good = part in P4_GOOD
                cls = 'parts=%d/%s' % (length, 'octets' if good else
                                       'one-odd-part')
                check_string(col, sub, s, cls, length >= 3 or good, funcs,
                             ('ipv4', 'ip') if good and length == 4 else
                             ('ipv4_loose', 'ip') if good and length < 4
                             else None)
    col.exhaustive[sub] = True


ODD_AFFIX = [' ', '\n', '\t', '.', ':', '/', '%', 'x', '\r\n', '\xa0',
             '\u2028', '-']
# most strings carry no affix, so that the body decides validity
AFFIX = [''] * 40 + ODD_AFFIX


def st_ipv4():
    from hypothesis import strategies as st
    octet = st.one_of(st.sampled_from(sorted(P4_GOOD)),
                      st.integers(0, 255).map(str))
    odd = st.one_of(
        st.sampled_from(P4),
        st.integers(-1, 300).map(str),
        st.integers(0, 255).map(lambda v: '%03d' % v),
        st.integers(0, 300).map(lambda v: '0x%x' % v),
        st.integers(0, 300).map(lambda v: '0%o' % v),
        st.integers(0, 1 << 33).map(str))

    @st.composite
    def build(draw):
        mode = draw(st.sampled_from(['valid', 'valid', 'short', 'one', 'one',
                                     'one', 'count', 'free']))
        if mode == 'valid':
            parts = draw(st.lists(octet, min_size=4, max_size=4))
        elif mode == 'short':
            # documented address format a / a.b / a.b.c (range ends of the
            # last part included)
            k = draw(st.integers(1, 3))
            parts = draw(st.lists(octet, min_size=k - 1, max_size=k - 1))
            top = 256 ** (5 - k)
            parts.append(str(draw(st.one_of(
                st.sampled_from([0, 255, 256, top - 1, top, top + 1]),
                st.integers(0, top - 1)))))
        elif mode == 'one':
            parts = draw(st.lists(octet, min_size=4, max_size=4))
            parts[draw(st.integers(0, 3))] = draw(odd)
        elif mode == 'count':
            k = draw(st.sampled_from([3, 5, 5, 6]))
            parts = draw(st.lists(octet, min_size=k, max_size=k))
        else:
            parts = draw(st.lists(st.one_of(octet, odd), min_size=1,
                                  max_size=5))
        sep = draw(st.sampled_from(['.'] * 12 + ['..', ',', ':']))
        return draw(st.sampled_from(AFFIX)) + sep.join(parts) + \
            draw(st.sampled_from(AFFIX))
    return build()


# -- IPv6 grammar -------------------------------------------------------------

G6 = ['0', '1', 'a', 'ff', 'abcd', 'FFFF', '0000', '0abc', 'Ab9']
G6_BAD = ['00000', '10000', 'g', 'xyz', '', '-1', '12345', '0x1', ' 1',
          '١']
TAILS = ['1.2.3.4', '255.255.255.255', '0.0.0.0', '192.168.254.254']
TAILS_BAD = ['1.2.3', '1.2.3.256', '01.2.3.4', '1.2.3.4.5', '1.2.3.', '1..3.4']
SCOPE_CHARS = ('abcdefghijklmnopqrstuvwxyzABCDEFGHIJKLMNOPQRSTUVWXYZ'
               '0123456789._-')


def build_v6(groups, dc, tail):
    """groups: list of group texts; dc: None or insertion index of '::';
    tail: None or dotted quad appended as the last element."""
    items = list(groups)
    if tail is not None:
        items = items + [tail]
    if dc is None:
        return ':'.join(items)
    k = min(dc, len(items))
    return ':'.join(items[:k]) + '::' + ':'.join(items[k:])


def ipv6_family(col, part, parts):
    """Every (group count 0..9, :: position, tail, scope length) shape."""
    sub = 'ipv6/family'
    funcs = _funcs()
    n = 0
    scopes = [None] + ['e' * k for k in range(0, 18)] + \
        ['%eth0', 'a%b', 'eth0/64', '1/64', 'br-ex.100', '/', 'eth 0',
         'eth0\n', 'éth0']
    for ng in range(0, 10):
        groups = [G6[(i * 3 + ng) % len(G6)] for i in range(ng)]
        for dc in [None] + list(range(0, ng + 1)):
            for tail in (None, TAILS[ng % len(TAILS)],
                         TAILS_BAD[ng % len(TAILS_BAD)]):
                base = build_v6(groups, dc, tail)
                for sc in scopes:
                    n += 1
                    if n % parts != part:
                        continue
                    s = base if sc is None else base + '%' + sc
                    units = ng + (2 if tail else 0)
                    cls = ['groups=%d%s' % (ng, '+v4' if tail else ''),
                           'dc=%s' % ('none' if dc is None else 'yes'),
                           'scope=%s' % ('none' if sc is None else
                                         'len%d' % len(sc))]
                    check_string(col, sub, s, cls,
                                 7 <= units <= 9 or dc is not None, funcs)
    col.exhaustive[sub] = True


def st_ipv6():
    """A well-formed address (8 groups, or fewer around one ::, optional
    IPv4 tail, optional 1..15 character scope id) with 0..2 mutations."""
    from hypothesis import strategies as st
    good = st.one_of(st.sampled_from(G6),
                     st.integers(0, 0xffff).map(lambda v: '%x' % v),
                     st.integers(0, 0xffff).map(lambda v: '%04X' % v))
    MUT = ['bad-group', 'add-group', 'drop-group', 'bad-tail', 'scope-len',
           'scope-odd', 'prefix', 'suffix', 'second-dc', 'bracket',
           'slash', 'drop-dc', 'add-dc']

    @st.composite
    def build(draw):
        tail = draw(st.one_of(st.none(), st.none(), st.sampled_from(TAILS)))
        room = 8 - (2 if tail else 0)
        if draw(st.booleans()):
            ng, dc = room, None
        else:
            ng = draw(st.one_of(st.integers(0, room - 1),
                                st.just(room - 1)))
            dc = draw(st.integers(0, ng))
        groups = draw(st.lists(good, min_size=ng, max_size=ng))
        scope = draw(st.one_of(
            st.none(), st.none(),
            st.integers(1, 15).flatmap(
                lambda k: st.text(SCOPE_CHARS, min_size=k, max_size=k)),
            st.sampled_from(['eth0', '1', 'e' * 15])))
        pre = suf = ''
        second = None
        for m in draw(st.lists(st.sampled_from(MUT), min_size=0, max_size=2)
                      if draw(st.integers(0, 2)) else st.just([])):
            if m == 'bad-group' and groups:
                groups[draw(st.integers(0, len(groups) - 1))] = \
                    draw(st.sampled_from(G6_BAD))
            elif m == 'add-group':
                groups.insert(draw(st.integers(0, len(groups))), draw(good))
            elif m == 'drop-group' and groups:
                groups.pop(draw(st.integers(0, len(groups) - 1)))
            elif m == 'bad-tail':
                tail = draw(st.sampled_from(TAILS_BAD))
            elif m == 'scope-len':
                k = draw(st.sampled_from([0, 0, 16, 16, 17, 30]))
                scope = draw(st.text(SCOPE_CHARS, min_size=k, max_size=k))
            elif m == 'scope-odd':
                scope = draw(st.sampled_from(
                    ['%eth0', 'a%b', 'eth0/64', '1/64', '/', 'eth 0',
                     'eth0\n', '\xe9', 'eth0%', ' ', '%']))
            elif m == 'prefix':
                pre = draw(st.sampled_from(ODD_AFFIX + ['[', '::', '0']))
            elif m == 'suffix':
                suf = draw(st.sampled_from(ODD_AFFIX + [']', '::', ':0']))
            elif m == 'second-dc':
                second = draw(st.integers(0, 40))
            elif m == 'bracket':
                pre, suf = '[', ']'
            elif m == 'slash':
                suf = draw(st.sampled_from(['/64', '/128', '/0', '/129',
                                            '/']))
            elif m == 'drop-dc':
                dc = None
            elif m == 'add-dc' and dc is None:
                dc = draw(st.integers(0, len(groups)))
        body = build_v6(groups, dc, tail)
        if second is not None:
            k = second % (len(body) + 1)
            body = body[:k] + '::' + body[k:]
        if scope is not None:
            body = body + '%' + scope
        return pre + body + suf
    return build()


# -- CIDR grammar -------------------------------------------------------------

CIDR_ADDRS = [
    '10.0.0.0', '10.0.0.1', '0.0.0.0', '255.255.255.255', '192.168.1.0',
    '2600::', '::', '::1', 'fe80::1',
    '0000:0000:0000:0000:0000:0000:0000:0001',
    'abcd:ef01:2345:6789:abcd:ef01:192.168.254.254', '::ffff:1.2.3.4',
    '1:2:3:4:5:6:7:8',
    # not addresses
    '10.0.0', '10', '256.0.0.0', '1.2.3.4.5', 'g::', '1:2:3:4:5:6:7',
    '1::2::3', '', 'foo', '010.0.0.0', 'fe80::1%eth0',
]
CIDR_SUFFIX_ODD = [
    '', '/', '//8', '/8/8', '/8/', '//', '/8//', '/+8', '/08', '/008', '/8 ',
    '/ 8', '/8\n', '/\n8', '/1_0', '/٨', '/٣٢', '/-0', '/0x8',
    '/8.0', '/8e0', '/²', '/255.0.0.0', '/255.255.255.255', '/0.0.0.0',
    '/0.0.0.255', '/255.0.255.0', '/255.0.0', '/ffff::', '/::',
    '/ffff:ffff:ffff:ffff::', '/::ffff', '/1.2.3.4', '/a', '/64%eth0', ' /8',
    '/ 64 ', '/0128', '/129 ', '/+128', '/032', '/64/64', '/64/', '%eth0/64',
]


def cidr_family(col, part, parts):
    sub = 'cidr/family'
    funcs = _funcs()
    n = 0
    for addr in CIDR_ADDRS:
        for suf in ['/%d' % p for p in range(-1, 130)] + CIDR_SUFFIX_ODD:
            n += 1
            if n % parts != part:
                continue
            s = addr + suf
            m = re.match(r'/(-?\d+)\Z', suf)
            if m:
                p = int(m.group(1))
                cls = 'prefix=' + ('-1' if p < 0 else '0..32' if p <= 32 else
                                   '33..128' if p <= 128 else '129')
                near = p in (-1, 0, 32, 33, 128, 129)
            else:
                cls = 'suffix=odd'
                near = True
            check_string(col, sub, s, cls, near, funcs)
    col.exhaustive[sub] = True


def st_addr4():
    from hypothesis import strategies as st
    return st.integers(0, 0xffffffff).map(
        lambda v: str(ipaddress.IPv4Address(v)))


def st_addr6():
    from hypothesis import strategies as st
    return st.tuples(
        st.one_of(st.integers(0, (1 << 128) - 1),
                  st.integers(0, 0xffff).map(lambda v: v << 112),
                  st.integers(0, 0xffffffff)),
        st.sampled_from('cxC')).map(
        lambda t: {'c': ipaddress.IPv6Address(t[0]).compressed,
                   'x': ipaddress.IPv6Address(t[0]).exploded,
                   'C': ipaddress.IPv6Address(t[0]).compressed.upper()}[t[1]])


def st_cidr():
    from hypothesis import strategies as st
    addr = st.one_of(st_addr4(), st_addr6(), st_addr4(), st_addr6(),
                     st.sampled_from(CIDR_ADDRS), st_ipv4(), st_ipv6())
    mask4 = st.integers(0, 32).map(
        lambda p: str(ipaddress.IPv4Address(
            (0xffffffff >> (32 - p)) << (32 - p) if p else 0)))
    host4 = st.integers(0, 32).map(
        lambda p: str(ipaddress.IPv4Address(0xffffffff >> p if p < 32
                                            else 0)))
    plen = st.one_of(st.integers(-1, 129), st.sampled_from(
        [0, 1, 8, 24, 31, 32, 33, 64, 127, 128, 129, 130, 255, 256, 1000]))
    suffix = st.one_of(
        plen.map(lambda p: '/%d' % p), plen.map(lambda p: '/%d' % p),
        plen.map(lambda p: '/%d' % p),
        plen.map(lambda p: '/%03d' % p), plen.map(lambda p: '/+%d' % p),
        plen.map(lambda p: '/%d ' % p), plen.map(lambda p: '/ %d' % p),
        plen.map(lambda p: '/%d\n' % p),
        plen.map(lambda p: '/' + '_'.join(str(p))),
        plen.map(lambda p: '/' + ''.join(
            chr(0x660 + int(c)) if c.isdigit() else c for c in str(p))),
        plen.map(lambda p: '/%d/%d' % (p, p)), plen.map(lambda p: '//%d' % p),
        plen.map(lambda p: '/%d/' % p),
        mask4.map(lambda m: '/' + m), host4.map(lambda m: '/' + m),
        st_addr4().map(lambda m: '/' + m), st_addr6().map(lambda m: '/' + m),
        st.sampled_from(CIDR_SUFFIX_ODD))
    return st.tuples(addr, suffix).map(''.join)


# -- MAC grammar --------------------------------------------------------------

MAC_SEPS = [':', '-', '.', '', ' ', '::', ';']
MAC_BAD_GROUPS = ['a', 'aaa', 'gg', '0G', '', 'a ', ' a', '-a', '0x', 'a:',
                  'ａa', '0١']


def mac_family(col):
    sub = 'mac/family'
    funcs = _funcs()
    contents = [['aa', 'bb', 'cc', 'dd', 'ee', 'ff', '00', '11'],
                ['AA', 'BB', 'CC', 'DD', 'EE', 'FF', '00', '99'],
                ['0f', 'F0', 'a9', '9A', 'Cd', 'eF', '52', '54']]
    affixes = [('', ''), ('', '\n'), ('', ' '), ('', '\r\n'), ('', 'x'),
               ('', ':'), (' ', ''), ('\n', ''), ('', '\n\n'), ('', '\x0b'),
               ('', '\u2028'), (':', ''), ('', '\n '), ('x', '')]
    for count in range(1, 9):
        for sep in MAC_SEPS:
            for groups in contents:
                for pre, suf in affixes:
                    s = pre + sep.join(groups[:count]) + suf
                    cls = ['groups=%d' % count, 'sep=%r' % sep,
                           'affix=%r' % (pre + '|' + suf)]
                    near = (count == 6 and sep == ':') or \
                        (count in (5, 7) and sep == ':' and not pre + suf) \
                        or (count == 6 and not pre + suf)
                    check_string(col, sub, s, cls, near, funcs,
                                 ('mac',) if (count == 6 and sep == ':' and
                                              not pre + suf) else None)
    base = contents[2][:6]
    for pos in range(6):
        for bad in MAC_BAD_GROUPS:
            for pre, suf in affixes[:3]:
                g = list(base)
                g[pos] = bad
                check_string(col, sub, pre + ':'.join(g) + suf,
                             ['one-bad-group', 'affix=%r' % (pre + '|' + suf)],
                             True, funcs)
    # mixed separators
    for pos in range(5):
        for sep in MAC_SEPS[1:]:
            seps = [':'] * 5
            seps[pos] = sep
            s = ''.join(a + b for a, b in zip(base, seps + ['']))
            check_string(col, sub, s, 'mixed-separators', True, funcs)
    col.exhaustive[sub] = True


def st_mac():
    from hypothesis import strategies as st
    good = st.one_of(st.integers(0, 255).map(lambda v: '%02x' % v),
                     st.integers(0, 255).map(lambda v: '%02X' % v),
                     st.sampled_from(['00', 'ff', 'FF', 'aB', '0a', 'A0']))
    bad = st.sampled_from(MAC_BAD_GROUPS)

    @st.composite
    def build(draw):
        mode = draw(st.sampled_from(['valid', 'valid', 'one', 'count', 'sep',
                                     'free']))
        sep = ':'
        if mode == 'count':
            k = draw(st.sampled_from([1, 3, 4, 5, 5, 7, 7, 8]))
            groups = draw(st.lists(good, min_size=k, max_size=k))
        elif mode == 'free':
            groups = draw(st.lists(st.one_of(good, good, bad), min_size=1,
                                   max_size=8))
            sep = draw(st.sampled_from(MAC_SEPS))
        else:
            groups = draw(st.lists(good, min_size=6, max_size=6))
            if mode == 'one':
                groups[draw(st.integers(0, 5))] = draw(bad)
            elif mode == 'sep':
                sep = draw(st.sampled_from(MAC_SEPS[1:]))
        body = sep.join(groups)
        if mode == 'sep' and draw(st.booleans()):
            # a single foreign separator among colons
            k = draw(st.integers(0, 4))
            body = ':'.join(groups[:k + 1]) + sep + ':'.join(groups[k + 1:])
        return draw(st.sampled_from(AFFIX)) + body + \
            draw(st.sampled_from(AFFIX + ['\n'] * 6 + ['\n\n']))
    return build()


# -- ports / ICMP -------------------------------------------------------------

def check_int_value(col, sub, v, funcs, cls=None, record=True):
    name_rng = (('port', 0, 65535, False), ('icmp_type', 0, 255, False),
                ('icmp_code', 0, 255, True))
    if record:
        col.case(sub, (type(v).__name__, v if not isinstance(v, int) or
                       abs(v) < 1 << 70 else hex(v)),
                 True, cls, {'value': v if not isinstance(v, int) or
                             abs(v) < 1 << 62 else hex(v)})
    for fn, lo, hi, none_ok in name_rng:
        want = int_verdict(v, lo, hi, none_ok)
        got = _call(funcs[fn], v)
        arg = v if not isinstance(v, int) or abs(v) < 1 << 62 else \
            {'int_hex': hex(v)}
        if isinstance(v, str):
            judge(col, sub, fn, arg, want, (), got)
        elif got[0] == 'err':
            # non-str argument: the statement promises answers for the
            # integers and None it quantifies over
            if want is not None:
                raise Violation(sub, '%s(%r) raised %r' % (fn, v, got[1]),
                                {'fn': fn, 'arg': arg})
            col.unspec(sub, fn)
        elif want is None:
            col.unspec(sub, fn)
        elif bool(got[1]) != want:
            raise Violation(sub, '%s(%r) -> %r, expected %s'
                            % (fn, v, got[1], want), {'fn': fn, 'arg': arg})


def int_range(col, lo, hi):
    """Every integer of lo..hi-1 in int and canonical str form."""
    sub = 'int/range'
    funcs = _funcs()
    n = 0
    for v in range(lo, hi):
        check_int_value(col, sub, v, funcs, record=False)
        check_int_value(col, sub, str(v), funcs, record=False)
        n += 2
    col.count(sub, n * 3, 'values %d..%d' % (lo, hi - 1))
    near = sum(1 for v in range(lo, hi)
               if min(abs(v - b) for b in (-1, 0, 255, 256, 65535, 65536))
               <= 1)
    col.distinct_extra += near * 2 * 3
    col.exhaustive[sub] = True


INT_ODD = [None, True, False, '', ' ', '+80', ' 80', '80 ', '80\n', '8_0',
           '８０', '٨٠', '080', '00', '-0', '+0', '0x50',
           '80.0', '8e1', '1e2', 'thirty-seven', 'None', 'five', '528.491',
           '-32768', '528491', 2 ** 31, 2 ** 32, 2 ** 63, 2 ** 64, -2 ** 64,
           10 ** 30, '9' * 19, '9' * 25, '1' * 4300, '1' * 4301, '1' * 10000,
           '-' + '1' * 5000, '0' * 5000, '²', '①', '௰', '--1',
           '- 1', '1-', '65535 ', '65536 ', '255\n', '256\n', '0\x00',
           '\x00', '\ud800', '8\ud8000', '65535\x00', '0b1', '0o7', 'inf',
           'nan', '1,000', '1 000', '−1', '65,535']


class _MyInt(int):
    pass


class _MyStr(str):
    pass


def _subclass_value(kind, value):
    import enum
    if kind == 'int':
        return _MyInt(value)
    if kind == 'str':
        return _MyStr(value)
    if kind == 'IntEnum':
        return enum.IntEnum('Port', {'P': value}).P
    if kind == 'IntFlag':
        return enum.IntFlag('Bits', {'B': value}).B
    raise core.HarnessError('subclass kind %r' % (kind,))


def check_subclass(col, sub, kind, value):
    """An int / str given as an instance of a subclass (IntEnum member,
    config-library str subclass) is the same value."""
    funcs = _funcs()
    v = _subclass_value(kind, value)
    plain = int(value) if kind != 'str' else str(value)
    for fn, lo, hi, none_ok in (('port', 0, 65535, False),
                                ('icmp_type', 0, 255, False),
                                ('icmp_code', 0, 255, True)):
        want = int_verdict(plain, lo, hi, none_ok)
        if want is None:
            continue
        got = _call(funcs[fn], v)
        case = {'fn': fn, 'arg': {'subclass': kind, 'value': value}}
        if got[0] == 'err':
            raise Violation(sub, '%s(<%s %r>) raised %r' % (fn, kind, value,
                                                            got[1]), case)
        if bool(got[1]) != want:
            raise Violation(sub, '%s(<%s subclass instance %r>) -> %r, '
                            'expected %s' % (fn, kind, value, got[1], want),
                            case)
    col.case(sub, (kind, value), True, 'subclass/' + kind,
             {'subclass': kind, 'value': value})


def int_subclasses(col):
    sub = 'int/subclass'
    for value in (0, 1, 80, 255, 256, 65535, 65536, 70000):
        for kind in ('int', 'IntEnum', 'IntFlag'):
            if kind == 'IntFlag' and value == 0:
                continue
            check_subclass(col, sub, kind, value)
        check_subclass(col, sub, 'str', str(value))
    for text in ('-1', 'abc', '', '65536'):
        check_subclass(col, sub, 'str', text)
    check_subclass(col, sub, 'int', -1)
    col.exhaustive[sub] = True


def preempt(col):
    """Schedules (core.preempt_calls): validators against each other under
    every single preemption inside netutils."""
    from oslo_utils import netutils as n
    sub = 'preempt'
    T, F = ('value', True), ('value', False)
    calls = [
        ('is_valid_port(80)', lambda: bool(n.is_valid_port('80')), T),
        ('is_valid_port(65536)', lambda: bool(n.is_valid_port('65536')), F),
        ('is_valid_ipv6(fe80::1%eth0)',
         lambda: bool(n.is_valid_ipv6('fe80::1%eth0')), T),
        ('is_valid_ipv4(1.2.3, strict)',
         lambda: bool(n.is_valid_ipv4('1.2.3', strict=True)), F),
        ('is_valid_ipv4(1.2.3.4, strict)',
         lambda: bool(n.is_valid_ipv4('1.2.3.4', strict=True)), T),
        ('is_valid_mac(aa:bb:cc:dd:ee:ff)',
         lambda: bool(n.is_valid_mac('aa:bb:cc:dd:ee:ff')), T),
        ('is_valid_mac(aa:bb:cc:dd:ee)',
         lambda: bool(n.is_valid_mac('aa:bb:cc:dd:ee')), F),
        ('is_valid_cidr(10.0.0.0/8)',
         lambda: bool(n.is_valid_cidr('10.0.0.0/8')), T),
        ('is_valid_cidr(10.0.0.0)',
         lambda: bool(n.is_valid_cidr('10.0.0.0')), F),
        ('is_valid_ipv6_cidr(::/0)',
         lambda: bool(n.is_valid_ipv6_cidr('::/0')), T),
        ('is_valid_icmp_type(255)',
         lambda: bool(n.is_valid_icmp_type(255)), T),
        ('is_valid_icmp_code(256)',
         lambda: bool(n.is_valid_icmp_code(256)), F),
        ('is_valid_ip(::1)', lambda: bool(n.is_valid_ip('::1')), T),
        ('is_valid_ip(1.2.3.256)', lambda: bool(n.is_valid_ip('1.2.3.256')),
         F),
    ]
    core.preempt_calls(col, sub, ['oslo_utils.netutils'], calls)
    col.exhaustive.setdefault(sub, False)


def int_odd(col):
    sub = 'int/odd'
    funcs = _funcs()
    for v in INT_ODD:
        check_int_value(col, sub, v, funcs,
                        'str' if isinstance(v, str) else type(v).__name__)
    col.exhaustive[sub] = True


def st_intlike():
    from hypothesis import strategies as st
    ends = [-1, 0, 1, 254, 255, 256, 257, 65534, 65535, 65536, 65537]
    num = st.one_of(st.sampled_from(ends), st.integers(-70000, 70000),
                    st.integers(-(1 << 70), 1 << 70))
    return st.one_of(
        num, num.map(str),
        st.tuples(st.sampled_from(['', '', '+', '-', ' ', '0', '00', '\n']),
                  num.map(str),
                  st.sampled_from(['', '', ' ', '\n', '.0', '_', 'L', 'e0',
                                   '\x00'])).map(''.join),
        num.map(lambda v: ''.join(chr(0xff10 + int(c)) if c.isdigit() else c
                                  for c in str(v))),
        num.map(lambda v: '_'.join(str(v))),
        st.text('0123456789+-_ .ex', max_size=8))


# -- text / noise / NUL classes -----------------------------------------------

def st_printable():
    from hypothesis import strategies as st
    return st.text(st.characters(blacklist_categories=('Cs', 'Cc')),
                   max_size=24)


def st_noise():
    from hypothesis import strategies as st
    return st.one_of(
        st.text('0123456789abcdefABCDEFxXg:./%-+_ \n', max_size=24),
        st.lists(st.sampled_from(
            ['1', '10', '255', '256', '0', 'ff', 'ffff', 'fe80', ':', '::',
             '.', '/', '%', 'eth0', '64', '32', '128', '8', ' ', '\n', '-',
             '1.2.3.4', '::1', 'aa:bb:cc:dd:ee:ff', '0x', 'g', '١']),
            max_size=9).map(''.join))


VALID_SEEDS = ['1.2.3.4', '10.0.0.0/8', '::1', 'fe80::1%eth0', '2600::/64',
               'aa:bb:cc:dd:ee:ff', '80', '10', '1:2:3:4:5:6:7:8/128',
               '::ffff:1.2.3.4', '10.0.0.0/255.0.0.0', '255']


def st_bad_chars():
    """A NUL, lone surrogate or other control character inside (or instead
    of) an otherwise valid string."""
    from hypothesis import strategies as st
    bad = st.sampled_from(['\x00', '\ud800', '\udfff', '\udc80', '\x00\x00',
                           '\x01', '\x7f', '\x85', '\u200b', '\ufeff',
                           '\U0001f600'])
    return st.tuples(st.sampled_from(VALID_SEEDS + ['']), bad,
                     st.integers(0, 40)).map(
        lambda t: t[0][:t[2] % (len(t[0]) + 1)] + t[1] +
        t[0][t[2] % (len(t[0]) + 1):])


def bad_chars_family(col):
    sub = 'badchar/family'
    funcs = _funcs()
    for seed in VALID_SEEDS + ['']:
        for bad in ('\x00', '\ud800', '\udfff'):
            for k in range(len(seed) + 1):
                check_string(col, sub, seed[:k] + bad + seed[k:],
                             'nul' if bad == '\x00' else 'surrogate', True,
                             funcs)
    col.exhaustive[sub] = True


CONFUSABLE_SEEDS = VALID_SEEDS + [
    'AA-BB-CC-DD-EE-FF', '0a:1b:2c:3d:4e:5f', 'fe80::ff:1%eth0/64', '65535',
    '0', '192.168.254.254/32', 'abcd:ef01:2345:6789:abcd:ef01:2345:6789',
    '::ffff:10.0.0.255', '1.2.3.4/255.255.255.0']


def confusable_family(col):
    """Every single substitution, into a valid string, of a non-ASCII code
    point that lower(), casefold(), upper(), NFKC/NFKD or the Unicode digit
    tables map onto the ASCII text it replaces (U+FB00 for 'ff', fullwidth
    and Arabic-Indic digits, fullwidth ':' '.' '/')."""
    from vcheck import confusables
    sub = 'confusable/family'
    funcs = _funcs()
    for seed in CONFUSABLE_SEEDS:
        for m, via, _pos in confusables.substitutions(seed):
            check_string(col, sub, m, 'via/' + via, True, funcs)
    col.exhaustive[sub] = True


def search(col, name, seed, n):
    funcs = _funcs()
    core.run_given(
        col, SEARCHES[name](),
        lambda c, s: check_string(c, name, s, _classify(s), None, funcs),
        seed, n)


def _classify(s):
    v = verdicts(s)
    valid = sorted(fn for fn, (w, _f) in v.items()
                   if w is True and fn != 'ipv4_strict_kw')
    known = sorted({f for _w, fs in v.values() for f in fs})
    out = ['valid:' + '+'.join(valid) if valid else 'valid:none']
    out.extend('class:' + k for k in known)
    return out


SEARCHES = {'ipv4/random': st_ipv4, 'ipv6/random': st_ipv6,
            'cidr/random': st_cidr, 'mac/random': st_mac,
            'text/printable': st_printable, 'text/noise': st_noise,
            'badchar/random': st_bad_chars}


def int_search(col, seed, n):
    funcs = _funcs()

    def oracle(c, v):
        check_int_value(c, 'int/random', v, funcs,
                        'str' if isinstance(v, str) else 'int')
    core.run_given(col, st_intlike(), oracle, seed, n)


# -- probes for the recorded findings -----------------------------------------

PROBES = [
    # (finding, fn, argument, expected verdict)
    (F_RAISES, 'cidr', '10.0.0.0/8/8', False),
    (F_RAISES, 'cidr', '10.0.0.0//8', False),
    (F_RAISES, 'ipv6_cidr', '::1/128/1', False),
    (F_RAISES, 'ipv4', '1.2.3.4\x00', False),
    (F_RAISES, 'ipv6', '::\ud800', False),
    (F_RAISES, 'ip', '\x001.2.3.4', False),
    (F_LENIENT, 'cidr', '10.0.0.0/+8', False),
    (F_LENIENT, 'cidr', '10.0.0.0/8\n', False),
    (F_LENIENT, 'cidr', '10.0.0.0/1_0', False),
    (F_LENIENT, 'cidr', '10.0.0.0/٨', False),
    (F_LENIENT, 'ipv6_cidr', '2600::/ffff::', False),
    (F_LENIENT, 'ipv6_cidr', '2600::/64 ', False),
    (F_MACNL, 'mac', 'aa:bb:cc:dd:ee:ff\n', False),
    (F_SCOPESLASH, 'ipv6', 'fe80::1%eth0/64', False),
    (F_SCOPESLASH, 'ip', '::1%1/64', False),
]


def probe_case(fn, arg, want):
    """Strict judgement of one recorded case (no routing)."""
    got = _call(_funcs()[fn], arg)
    if got[0] == 'err':
        raise Violation('probe', '%s(%r) raised %r instead of answering'
                        % (fn, arg, got[1]), {'fn': fn, 'arg': arg,
                                              'want': want, 'probe': True})
    if bool(got[1]) != want:
        raise Violation('probe', '%s(%r) -> %r, expected %s'
                        % (fn, arg, got[1], want),
                        {'fn': fn, 'arg': arg, 'want': want, 'probe': True})


def probes(col, finding):
    """Re-execute the recorded failing cases of one finding.

    open in known_findings.json: a still-failing case is raised (the runner
    matches it to the entry and prints KNOWN-FINDING); fixed: must pass;
    not listed yet (proposal pending): noted in the evidence only."""
    sub = 'probe'
    status = finding_status(finding)
    for f, fn, arg, want in PROBES:
        if f != finding:
            continue
        col.case(sub, (fn, arg), True, finding, {'fn': fn, 'arg': arg})
        try:
            probe_case(fn, arg, want)
        except Violation as v:
            if status is None:
                col.known(sub, finding + ' (proposed, reproduces)')
                if len(col.notes) < 4:
                    col.notes.append('PENDING-FINDING %s: %s'
                                     % (finding, v.msg))
                continue
            col.fail(v)
    col.exhaustive[sub] = True


# -- registered predicates for known_findings.json ----------------------------

def _case_of(rec):
    c = rec.get('case') or {}
    return c.get('fn'), c.get('arg')


def _p_raises(rec):
    fn, s = _case_of(rec)
    return isinstance(s, str) and fn in FNS and \
        F_RAISES in verdicts(s).get(fn, (None, ()))[1]


def _p_lenient(rec):
    fn, s = _case_of(rec)
    return isinstance(s, str) and fn in ('cidr', 'ipv6_cidr') and \
        F_LENIENT in verdicts(s)[fn][1]


def _p_macnl(rec):
    fn, s = _case_of(rec)
    return isinstance(s, str) and fn == 'mac' and \
        mac_verdict(s)[1] == F_MACNL


def _p_scopeslash(rec):
    fn, s = _case_of(rec)
    return isinstance(s, str) and fn in ('ipv6', 'ip') and \
        F_SCOPESLASH in verdicts(s)[fn][1]


KNOWN = {F_RAISES: _p_raises, F_LENIENT: _p_lenient, F_MACNL: _p_macnl,
         F_SCOPESLASH: _p_scopeslash}


# -- tasks / replay -----------------------------------------------------------

def tasks(tier, seed):
    quick = tier == 'quick'
    finding_status(F_RAISES)          # load before forking
    out = [Task('probe', probes, finding=f)
           for f in (F_RAISES, F_LENIENT, F_MACNL, F_SCOPESLASH)]
    out += [Task('mac/family', mac_family),
            Task('int/odd', int_odd),
            Task('badchar/family', bad_chars_family),
            Task('confusable/family', confusable_family),
            Task('int/subclass', int_subclasses),
            Task('preempt', preempt)]
    for length in (1, 2, 3, 4, 5):
        out.append(Task('ipv4/family', ipv4_family, length=length))
    for p in range(4):
        out.append(Task('ipv6/family', ipv6_family, part=p, parts=4))
        out.append(Task('cidr/family', cidr_family, part=p, parts=4))
    step = 17750
    for lo in range(-1000, 70000, step):
        out.append(Task('int/range', int_range, lo=lo,
                        hi=min(70000, lo + step)))
    n = 1200 if quick else 8000
    searches = [('ipv4/random', 2), ('ipv6/random', 3), ('cidr/random', 3),
                ('mac/random', 2), ('text/printable', 1), ('text/noise', 2),
                ('badchar/random', 1)]
    for name, shards in searches:
        for i in range(shards if quick else shards * 2):
            out.append(Task(name, search, name=name, n=n,
                            seed=core.derive_seed(seed, ID, name, i)))
    for i in range(1 if quick else 2):
        out.append(Task('int/random', int_search, n=n * 2,
                        seed=core.derive_seed(seed, ID, 'int', i)))
    return out


def replay(rec):
    case = rec['case']
    sub = rec.get('sub', 'replay')
    if case.get('preempt_calls'):
        return preempt(core.Collector())
    fn, arg = case['fn'], case['arg']
    if isinstance(arg, dict) and 'subclass' in arg:
        return check_subclass(core.Collector(), sub, arg['subclass'],
                              arg['value'])
    if isinstance(arg, dict) and 'int_hex' in arg:
        arg = int(arg['int_hex'], 16)
    if case.get('probe'):
        probe_case(fn, arg, case['want'])
        return
    col = core.Collector()
    funcs = _funcs()
    if fn in ('port', 'icmp_type', 'icmp_code') and not isinstance(arg, str):
        check_int_value(col, sub, arg, funcs)
        return
    if not isinstance(arg, str):
        raise core.HarnessError('cannot replay argument %r' % (arg,))
    if fn in ('port', 'icmp_type', 'icmp_code'):
        check_int_value(col, sub, arg, funcs)
    check_string(col, sub, arg, None, None, funcs)
