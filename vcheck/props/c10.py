"""C10 - string_to_bytes is exact or raises ValueError; QemuImgInfo agrees.

Grammar construction + exact rational reference.  Texts are built from
(sign, magnitude, prefix, unit) parts whose validity is known by construction,
or enumerated / mutated and classified by a small reference recogniser written
from the property statement; the value is computed with fractions.Fraction.
QemuImgInfo (human format) is fed generated `qemu-img info` outputs and its
size attributes are compared with the same arithmetic.
"""

import decimal
import itertools
import math
import unicodedata
import warnings
from fractions import Fraction

from vcheck import argtypes
from vcheck import core
from vcheck.core import Task, Violation

ID = 'C10'
LEVEL = 'exploration'
BUDGET = {'quick': 75, 'thorough': 480}
# deterministic sub-checks repeated in a `python -O` child (core.optimized_child)
OPT_SUBS = ('stb/format-tokens', 'stb/grid', 'qemu/table')
# sub-checks repeated with str / int arguments as subclass instances
SUBCLASS_SUBS = ('stb/format-tokens', 'stb/grid#6')
# documented call interface the generated calls rely on (vcheck/callstyle.py)
INTERFACE = [('oslo_utils.strutils', ['string_to_bytes']), ('oslo_utils.imageutils.qemu', None)]
# pairs of sampled cases are run against each other under every single
# preemption inside these modules (core.preempt_pair)
PREEMPT_MODULES = ['oslo_utils.strutils', 'oslo_utils.imageutils.qemu']
RULE = ('string_to_bytes: (a) grid = 3 signs x 44 magnitudes (integers, '
        'decimals, leading dot, leading zeros, 30 digits, malformed) x 33 '
        'prefixes (the 22 of the statement, none, 10 foreign) x 8 units (b, '
        'bit, B, 5 malformed) x 7 unit systems (IEC, SI, mixed, 4 unknown) x '
        'return_int, enumerated; (b) every string over {1 . - + k K M i b B '
        'space newline} up to length 5 (6 thorough) x 3 systems, classified by '
        'a reference recogniser; (c) Hypothesis: random magnitudes up to 30+15 '
        'digits over all admitted prefixes, and one-step corruptions of valid '
        'texts (spaces, dots, exponent, 0x, doubled sign, line ends, case '
        'swaps, non-ASCII digits). Expected value = Fraction(magnitude) x '
        'base^exp (/8 for b, bit); floats within 1e-12 relative, return_int '
        'the exact ceiling unless the value is within 1e-12 of an integer. '
        'QemuImgInfo: generated human outputs with virtual size / disk size / '
        'cluster_size lines, magnitudes integer, 1-3 decimals or N e+NN, units '
        '{none, B, K..E, KiB..EiB}, optional "(N bytes)" that disagrees with '
        'the rounded figure, None / unavailable. Non-trivial: a prefix is '
        'present and (decimal magnitude or bit unit or SI/mixed system or '
        'return_int), or the text is invalid but within one edit of a valid '
        'one; qemu: a unit or a bytes hint is present. Distinct by (text, '
        'system, return_int) / by output text.')
ASSUMPTIONS = [
    'the reference recogniser (sign, ASCII digits with optional point, '
    'prefix table per unit system, unit b|bit|B) and the exponent table are '
    'written from the statement and the docstring, not from strutils',
    'floating point results may differ from the exact rational value by a '
    'relative 1e-12; return_int may be either neighbouring integer when the '
    'exact value is that close to an integer',
    'magnitudes stay below 1e45 so that no float overflow occurs',
    'non-ASCII decimal digits in the magnitude are unspecified: ValueError or '
    'the value with the digits read by their Unicode digit value',
    'unit_system values are hashable (str / None); text is a str',
    'known findings routed away: mixed_ki_prefix (F-l) and '
    'trailing_newline_accepted (F-h); one probe each still executes them',
    'QemuImgInfo: only the spellings qemu-img prints are generated (integer '
    'mantissa in e-notation; "1.02e+03 MiB" is outside the domain); the '
    'FutureWarning of the human format is silenced',
]

EXPONENT = {'k': 1, 'K': 1, 'M': 2, 'G': 3, 'T': 4, 'P': 5, 'E': 6, 'Z': 7,
            'Y': 8, 'R': 9, 'Q': 10}
UPPER = 'KMGTPEZYRQ'
ADMITTED = {
    'IEC': tuple(UPPER) + tuple(c + 'i' for c in UPPER),
    'SI': ('k',) + tuple(UPPER[1:]),
    'mixed': ('k', 'ki') + tuple(UPPER) + tuple(c + 'i' for c in UPPER),
}
ALL_PREFIXES = ADMITTED['mixed']            # the 22 of the statement
FOREIGN_PREFIXES = ('i', 'm', 'X', 'kI', 'KI', 'mi', 'da', 'h', 'Bi', 'u')
UNITS = ('b', 'bit', 'B')
BAD_UNITS = ('', 'bits', 'byte', 'Bb', 'Bit')
SYSTEMS = ('IEC', 'SI', 'mixed')
UNKNOWN_SYSTEMS = ('si', '', None, 'KKK')
EPS = Fraction(1, 10 ** 12)

F_L = 'mixed_ki_prefix'
F_H = 'trailing_newline_accepted'


def run_given(col, strategy, oracle, seed, max_examples):
    """core.run_given, robust against the budget running out mid-shrink."""
    seen = []

    def wrapped(col, case):
        try:
            oracle(col, case)
        except Violation as v:
            seen.append(v)
            raise

    try:
        return core.run_given(col, strategy, wrapped, seed, max_examples)
    except Violation:
        raise
    except Exception:
        if not seen:
            raise
        v = min(seen[-5:], key=lambda x: len(repr(x.case)))
        col.fail(v)
        return v


# -- reference -------------------------------------------------------------

def split_text(text):
    """(sign, magnitude, rest, nonascii) or None: the numeric head of text.

    number := digits | digits '.' digits | '.' digits
    """
    n = len(text)
    i = 0
    sign = ''
    if i < n and text[i] in '+-':
        sign = text[i]
        i += 1
    j = i
    while j < n and text[j].isdecimal():
        j += 1
    if j < n and text[j] == '.':
        k = j + 1
        while k < n and text[k].isdecimal():
            k += 1
        if k == j + 1:
            return None             # "12." / "." : no digit after the point
    else:
        if j == i:
            return None
        k = j
    mag = text[i:k]
    nonascii = any(c not in '0123456789.' for c in mag)
    return sign, mag, text[k:], nonascii


def parse(text, system):
    """('valid', Fraction, parts) | ('invalid',) | ('unspec', why, Fraction).

    system must be one of SYSTEMS.
    """
    head = split_text(text)
    if head is None:
        return ('invalid',)
    sign, mag, rest, nonascii = head
    unit = prefix = None
    for u in ('bit', 'b', 'B'):
        if rest.endswith(u):
            p = rest[:-len(u)]
            if p == '' or p in ADMITTED[system]:
                unit, prefix = u, p
                break
    if unit is None:
        return ('invalid',)
    if nonascii:
        digits = ''.join(str(unicodedata.decimal(c)) if c != '.' else c
                         for c in mag)
    else:
        digits = mag
    value = Fraction(decimal.Decimal(sign + digits))
    if prefix:
        if system == 'IEC':
            base = 1024
        elif system == 'SI':
            base = 1000
        else:
            base = 1024 if prefix.endswith('i') else 1000
        value *= base ** EXPONENT[prefix[0]]
    if unit in ('b', 'bit'):
        value /= 8
    parts = {'sign': sign, 'mag': mag, 'prefix': prefix, 'unit': unit,
             'base': base if prefix else 1}
    if nonascii:
        return ('unspec', 'non-ascii-digits', value, parts)
    return ('valid', value, parts)


def is_fl(text, system):
    """F-l: text valid in mixed mode with the prefix 'ki'."""
    if system != 'mixed' or not isinstance(text, str):
        return False
    t = text[:-1] if text.endswith('\n') else text
    r = parse(t, 'mixed')
    return r[0] in ('valid', 'unspec') and r[-1]['prefix'] == 'ki'


def is_fh(text, system):
    """F-h: an admitted text followed by exactly one newline."""
    if system not in SYSTEMS or not isinstance(text, str):
        return False
    return text.endswith('\n') and parse(text[:-1], system)[0] != 'invalid'


def still_failing():
    """Names of the routed findings whose probe still fails on this tree.

    Routing is only applied while the defect is present: once it is repaired
    the class flows through the normal oracle again.
    """
    out = set()
    for name, cases in PROBES.items():
        for case in cases:
            try:
                check_stb(core.Collector(), 'probe', case)
            except Violation:
                out.add(name)
                break
    return out


def exact_in_floats(mag, x, bits, base=None):
    """No tolerance is granted when binary floating point (and so any exact
    arithmetic too) computes the quantity without rounding in every order
    of operations: an integer literal with every intermediate product below
    2**53, or a magnitude that is itself a binary float (integers below
    2**53, dyadic decimals such as 1.5 or .125) scaled only by powers of two
    (base 1024, /8) - however large the result."""
    if not mag.isascii():
        return False
    if '.' not in mag and abs(x) * (8 if bits else 1) < 2 ** 53:
        return True
    if base in (1, 1024):
        try:
            m = Fraction(decimal.Decimal(mag))
        except Exception:
            return False
        if base == 1 and m >= 2 ** 53:
            return False
        return Fraction(float(m)) == m and m < 2 ** 200 and \
            (m == 0 or m * 8 >= Fraction(1, 2 ** 200))
    return False


def close(got, x):
    if isinstance(got, bool) or not isinstance(got, (int, float)):
        return False
    if isinstance(got, float) and (got != got or got in (float('inf'),
                                                         float('-inf'))):
        return False
    return abs(Fraction(got) - x) <= EPS * abs(x)


def check_stb(col, sub, case, near=True):
    """case: text, system, return_int. Returns (class label, nontrivial)."""
    from oslo_utils import strutils
    text, system, rint = case['text'], case['system'], case['return_int']
    try:
        got = ('value', strutils.string_to_bytes(argtypes.maybe(text),
                                                 unit_system=system,
                                                 return_int=rint))
    except ValueError:
        got = ('ValueError',)
    except Exception as e:
        raise Violation(sub, 'string_to_bytes(%r, unit_system=%r, return_int='
                        '%r) raised %s(%s); only ValueError is allowed'
                        % (text, system, rint, type(e).__name__, e), case)
    if system not in SYSTEMS:
        if got[0] != 'ValueError':
            raise Violation(sub, 'string_to_bytes(%r, unit_system=%r) = %r, '
                            'expected ValueError (unknown unit system)'
                            % (text, system, got[1]), case)
        return 'unknown-system', False
    want = parse(text, system)
    if want[0] == 'invalid':
        if got[0] != 'ValueError':
            raise Violation(sub, 'string_to_bytes(%r, unit_system=%r, '
                            'return_int=%r) = %r, expected ValueError'
                            % (text, system, rint, got[1]), case)
        return 'invalid', near and parse_any_system(text)
    x = want[2] if want[0] == 'unspec' else want[1]
    parts = want[-1]
    if want[0] == 'unspec':
        col.unspec(sub, want[1])
        if got[0] == 'ValueError':
            return 'unspec/' + want[1], True
    elif got[0] == 'ValueError':
        raise Violation(sub, 'string_to_bytes(%r, unit_system=%r, return_int='
                        '%r) raised ValueError, expected %s'
                        % (text, system, rint, float(x)), case)
    g = got[1]
    if rint:
        lo, hi = sorted((x * (1 - EPS), x * (1 + EPS)))
        lo, hi = math.ceil(lo), math.ceil(hi)
        if exact_in_floats(parts['mag'], x, parts['unit'] != 'B',
                           parts.get('base')):
            lo = hi = math.ceil(x)
        if isinstance(g, bool) or not isinstance(g, int) or not lo <= g <= hi:
            raise Violation(sub, 'string_to_bytes(%r, unit_system=%r, '
                            'return_int=True) = %r, expected ceil(%s) = %d'
                            % (text, system, g, x, math.ceil(x)), case)
        if lo != hi:
            col.unspec(sub, 'ceil-of-value-within-1e-12-of-an-integer')
    else:
        if not close(g, x):
            raise Violation(sub, 'string_to_bytes(%r, unit_system=%r) = %r, '
                            'expected %s (= %r)' % (text, system, g, x,
                                                    float(x)), case)
        if exact_in_floats(parts['mag'], x, parts['unit'] != 'B',
                           parts.get('base')) and Fraction(g) != x:
            raise Violation(sub, 'string_to_bytes(%r, unit_system=%r) = %r, '
                            'expected exactly %s (every step is exact in '
                            'binary floating point)' % (text, system, g, x),
                            case)
    p = parts['prefix']
    nt = bool(p) and ('.' in parts['mag'] or parts['unit'] != 'B' or
                      system != 'IEC' or rint)
    cls = 'valid/%s/%s/%s%s' % (system, 'prefix' if p else 'bare',
                                'bits' if parts['unit'] != 'B' else 'bytes',
                                '/int' if rint else '')
    return cls, nt


def parse_any_system(text):
    """An invalid text is 'near' if dropping or changing one character makes
    it valid in some system (cheap approximation: try deletions)."""
    for i in range(len(text)):
        t = text[:i] + text[i + 1:]
        for s in SYSTEMS:
            if parse(t, s)[0] == 'valid':
                return True
    return False


# -- (a) grid ------------------------------------------------------------------

GOOD_MAGS = ('0', '1', '7', '8', '79', '7.9', '.9', '0.1', '1.5', '1023',
             '1024', '1.000', '00012', '0.001', '.125', '12.375', '3', '999',
             '1000', '0.5', '2.5', '1.0000000001', '4.4', '3.1', '0.0',
             '123456789012345678901234567890', '9007199254740993',
             '0.333333333333333333', '65536', '.0009765625',
             # long texts: hundreds of leading zeros or fractional digits
             # (the quantity itself stays small)
             '0' * 320 + '64', '1.' + '0' * 400, '0.' + '3' * 330,
             '12.5' + '0' * 300)
BAD_MAGS = ('', '79.', '7.9.9', 'asdf', '1..2', '1e3', '0x10', '1,5', '.',
            '1 ', ' 1', '1_0', '1-', 'inf')
SIGNS = ('', '+', '-')
BAD_SIGNS = ('~', '--', '+-')


def stb_grid(col, mag_index):
    sub = 'stb/grid'
    mags = GOOD_MAGS + BAD_MAGS
    mag = mags[mag_index]
    mag_ok = mag in GOOD_MAGS
    prefixes = ('',) + ALL_PREFIXES + FOREIGN_PREFIXES
    if len(mag) > 100:
        # long texts: exact rational arithmetic on hundreds of digits is
        # slow; a cross-section of the prefixes is enough here
        prefixes = ('', 'k', 'K', 'Ki', 'M', 'Qi', 'Q', 'X', 'i')
    hist = {}
    n_nt = 0
    sampled = set()
    routed = still_failing()
    for sign in SIGNS + BAD_SIGNS:
        for prefix in prefixes:
            for unit in UNITS + BAD_UNITS:
                text = sign + mag + prefix + unit
                for system in SYSTEMS + UNKNOWN_SYSTEMS:
                    for rint in (False, True):
                        if F_L in routed and is_fl(text, system):
                            col.known(sub, F_L)
                            continue
                        case = {'text': text, 'system': system,
                                'return_int': rint}
                        cls, nt = check_stb(col, sub, case, near=False)
                        # by construction
                        built_ok = (mag_ok and sign in SIGNS and
                                    unit in UNITS and system in SYSTEMS and
                                    (prefix == '' or
                                     prefix in ADMITTED[system]))
                        if built_ok != cls.startswith('valid'):
                            raise core.HarnessError(
                                'recogniser and construction disagree on %r '
                                '(%r): %s' % (text, system, cls))
                        if cls == 'invalid':
                            if system in SYSTEMS and prefix in ALL_PREFIXES \
                                    and mag_ok and sign in SIGNS and \
                                    unit in UNITS:
                                cls = 'invalid/prefix-foreign-to-system'
                                nt = True
                            elif prefix in FOREIGN_PREFIXES:
                                cls = 'invalid/unknown-prefix'
                            elif unit in BAD_UNITS:
                                cls = 'invalid/unit'
                            elif not mag_ok:
                                cls = 'invalid/magnitude'
                            else:
                                cls = 'invalid/sign'
                        if cls not in sampled:
                            sampled.add(cls)
                            col.case(sub, (text, system, rint), nt, cls, case)
                        else:
                            hist[cls] = hist.get(cls, 0) + 1
                            n_nt += 1 if nt else 0
    for cls in sorted(hist):
        col.count(sub, hist[cls], cls)
    col.distinct_extra += n_nt
    col.exhaustive[sub] = True


# -- (b) small alphabet ------------------------------------------------------------

SMALL = ('1', '.', '-', '+', 'k', 'K', 'M', 'i', 'b', 'B', ' ', '\n')


def stb_strings(col, length, prefix):
    sub = 'stb/strings-exhaustive'
    hist = {}
    sampled = set()
    n_nt = 0
    routed = still_failing()
    for rest in itertools.product(SMALL, repeat=length - len(prefix)):
        text = prefix + ''.join(rest)
        for si, system in enumerate(SYSTEMS):
            if F_L in routed and is_fl(text, system):
                col.known(sub, F_L)
                continue
            if F_H in routed and is_fh(text, system):
                col.known(sub, F_H)
                continue
            rint = bool((len(text) + si) & 1)
            case = {'text': text, 'system': system, 'return_int': rint}
            cls, nt = check_stb(col, sub, case)
            if cls == 'invalid' and nt:
                cls = 'invalid/one-deletion-from-valid'
            if cls not in sampled:
                sampled.add(cls)
                col.case(sub, (text, system, rint), nt, cls, case)
            else:
                hist[cls] = hist.get(cls, 0) + 1
                n_nt += 1 if nt else 0
    for cls in sorted(hist):
        col.count(sub, hist[cls], cls)
    col.distinct_extra += n_nt
    col.exhaustive[sub] = True


# -- (c) Hypothesis ---------------------------------------------------------------

def stb_random(col, seed, max_examples):
    from hypothesis import strategies as st
    sub = 'stb/random'
    routed = still_failing()
    digits = st.text(alphabet='0123456789', min_size=1, max_size=30)
    frac = st.text(alphabet='0123456789', min_size=1, max_size=15)
    mag = st.one_of(
        digits,
        st.integers(0, 5000).map(str),
        st.tuples(digits, frac).map(lambda t: t[0] + '.' + t[1]),
        st.tuples(st.integers(0, 2000), st.integers(0, 999)).map(
            lambda t: '%d.%d' % t),
        frac.map(lambda f: '.' + f),
        st.sampled_from(['1023.999999999999', '0.125', '8', '1e3', '']))
    arabic = str.maketrans('0123456789', '\u0660\u0661\u0662\u0663\u0664'
                           '\u0665\u0666\u0667\u0668\u0669')

    @st.composite
    def cases(draw):
        system = draw(st.sampled_from(SYSTEMS * 5 + UNKNOWN_SYSTEMS))
        sysk = system if system in SYSTEMS else 'mixed'
        sign = draw(st.sampled_from(SIGNS))
        m = draw(mag)
        prefix = draw(st.one_of(st.just(''),
                                st.sampled_from(ADMITTED[sysk]),
                                st.sampled_from(ADMITTED[sysk]),
                                st.sampled_from(ADMITTED[sysk]),
                                st.sampled_from(ADMITTED[sysk]),
                                st.sampled_from(ALL_PREFIXES),
                                st.sampled_from(FOREIGN_PREFIXES)))
        unit = draw(st.sampled_from(UNITS * 4 + BAD_UNITS))
        text = sign + m + prefix + unit
        kind = draw(st.sampled_from(['asis'] * 8 + ['space',
                                     'newline', 'crlf', 'lead-nl', 'dot',
                                     'exp', '0x', 'sign2', 'swapcase',
                                     'arabic', 'insert', 'delete', 'tab']))
        if kind == 'space':
            p = draw(st.integers(0, len(text)))
            text = text[:p] + ' ' + text[p:]
        elif kind == 'tab':
            text = text + '\t'
        elif kind == 'newline':
            text = text + '\n'
        elif kind == 'crlf':
            text = text + draw(st.sampled_from(['\r\n', '\n\n', '\r', '\x0b',
                                                '\x1c', '\u2028', '\x85']))
        elif kind == 'lead-nl':
            text = '\n' + text
        elif kind == 'dot':
            p = draw(st.integers(0, len(text)))
            text = text[:p] + '.' + text[p:]
        elif kind == 'exp':
            text = sign + m + 'e3' + prefix + unit
        elif kind == '0x':
            text = sign + '0x' + m + prefix + unit
        elif kind == 'sign2':
            text = draw(st.sampled_from('+-')) + text
        elif kind == 'swapcase':
            p = draw(st.integers(0, max(0, len(text) - 1)))
            text = text[:p] + text[p:p + 1].swapcase() + text[p + 1:]
        elif kind == 'arabic':
            p = draw(st.integers(0, max(0, len(m) - 1)))
            text = sign + m[:p] + m[p:p + 1].translate(arabic) + m[p + 1:] + \
                prefix + unit
        elif kind == 'insert':
            p = draw(st.integers(0, len(text)))
            text = text[:p] + draw(st.sampled_from('ibBkKM1,_e ')) + text[p:]
        elif kind == 'delete' and text:
            p = draw(st.integers(0, len(text) - 1))
            text = text[:p] + text[p + 1:]
        return {'text': text, 'system': system,
                'return_int': draw(st.booleans()), 'kind': kind}

    def oracle(col, c):
        case = {'text': c['text'], 'system': c['system'],
                'return_int': c['return_int']}
        if F_L in routed and is_fl(case['text'], case['system']):
            col.known(sub, F_L)
            return
        if F_H in routed and is_fh(case['text'], case['system']):
            col.known(sub, F_H)
            return
        cls, nt = check_stb(col, sub, case)
        if cls == 'invalid' and nt:
            cls = 'invalid/one-deletion-from-valid'
        col.case(sub, (case['text'], case['system'], case['return_int']), nt,
                 [cls, 'kind/' + c['kind']], case)

    run_given(col, cases(), oracle, seed, max_examples)


# -- QemuImgInfo --------------------------------------------------------------------

QEMU_UNITS = {'': 0, 'B': 0, 'K': 1, 'M': 2, 'G': 3, 'T': 4, 'P': 5, 'E': 6,
              'KiB': 1, 'MiB': 2, 'GiB': 3, 'TiB': 4, 'PiB': 5, 'EiB': 6}
FIELDS = {'virtual_size': ('virtual size', 'virtual_size'),
          'disk_size': ('disk size', 'disk_size'),
          'cluster_size': ('cluster_size', 'cluster size')}


def qemu_expected(spec):
    """spec: {'kind': 'size'|'word'|'absent', ...} -> ('exact', n) |
    ('ceil', Fraction) | ('none',)."""
    if spec['kind'] == 'absent':
        return ('none',)
    if spec['kind'] == 'word':
        return ('exact', 0)
    if spec.get('bytes') is not None:
        return ('exact', spec['bytes'])
    m = spec['mag']
    if 'e' in m:
        mant, exp = m.split('e+')
        val = Fraction(int(mant)) * 10 ** int(exp)
    else:
        val = Fraction(decimal.Decimal(m))
    return ('ceil', val * 1024 ** QEMU_UNITS[spec['unit']])


def qemu_render(spec):
    if spec['kind'] == 'word':
        return spec['word']
    s = spec['mag'] + spec['gap'] + spec['unit']
    if spec.get('bytes') is not None:
        s += ' (%d bytes)' % spec['bytes']
    return s


def check_qemu(col, sub, case):
    from oslo_utils.imageutils import QemuImgInfo
    lines = ['image: disk.img', 'file format: qcow2']
    order = case.get('order', ['virtual_size', 'disk_size', 'cluster_size'])
    for f in order:
        spec = case['fields'][f]
        if spec['kind'] != 'absent':
            lines.append('%s: %s' % (FIELDS[f][spec.get('label', 0)],
                                     qemu_render(spec)))
    if case.get('image_last'):
        lines = lines[2:] + lines[:2]
    text = '\n'.join(lines) + '\n'
    with warnings.catch_warnings():
        warnings.simplefilter('ignore')
        try:
            info = QemuImgInfo(text)
        except Exception as e:
            raise Violation(sub, 'QemuImgInfo(%r) raised %s(%s)'
                            % (text, type(e).__name__, e), case)
    for f in FIELDS:
        spec = case['fields'][f]
        want = qemu_expected(spec)
        got = getattr(info, f)
        ok = True
        if want[0] == 'none':
            ok = got is None
        elif isinstance(got, bool) or not isinstance(got, int):
            ok = False
        elif want[0] == 'exact':
            ok = got == want[1]
        else:
            x = want[1]
            lo, hi = math.ceil(x * (1 - EPS)), math.ceil(x * (1 + EPS))
            if exact_in_floats(spec['mag'], x, False):
                lo = hi = math.ceil(x)
            ok = lo <= got <= hi
            if lo != hi:
                col.unspec(sub, 'ceil-of-value-within-1e-12-of-an-integer')
        if not ok:
            raise Violation(sub, 'QemuImgInfo(%r).%s = %r, expected %s'
                            % (text, f, got,
                               'None' if want[0] == 'none' else
                               want[1] if want[0] == 'exact' else
                               'ceil(%s) = %d' % (want[1],
                                                  math.ceil(want[1]))), case)
    return text


def qemu_generated(col, seed, max_examples):
    from hypothesis import strategies as st
    sub = 'qemu/human'
    mag_int = st.one_of(st.integers(0, 1100), st.integers(0, 10 ** 12)).map(
        str)
    mag_dec = st.tuples(st.integers(0, 1023), st.integers(1, 3),
                        st.integers(0, 999)).map(
        lambda t: '%d.%s' % (t[0], ('%03d' % t[2])[:t[1]]))
    mag_exp = st.tuples(st.integers(1, 9), st.integers(3, 6)).map(
        lambda t: '%de+%02d' % t)
    units = sorted(QEMU_UNITS)

    @st.composite
    def size(draw, allow_bytes):
        kind = draw(st.sampled_from(['size'] * 8 + ['word', 'absent']))
        if kind == 'word':
            return {'kind': 'word', 'word': draw(st.sampled_from(
                ['None', 'unavailable'])), 'label': draw(st.integers(0, 1))}
        if kind == 'absent':
            return {'kind': 'absent'}
        unit = draw(st.sampled_from(units))
        if unit == '':
            m = draw(st.one_of(mag_int, mag_exp))
        else:
            m = draw(st.one_of(mag_int, mag_dec, mag_dec, mag_exp))
        if unit in ('E', 'EiB', 'P', 'PiB') and 'e' in m:
            m = m.split('e')[0]
        gap = '' if unit == '' else draw(st.sampled_from(['', ' ']))
        spec = {'kind': 'size', 'mag': m, 'unit': unit, 'gap': gap,
                'label': draw(st.integers(0, 1))}
        if allow_bytes and draw(st.booleans()):
            exact = qemu_expected(spec)[1]
            n = math.ceil(exact) if draw(st.booleans()) else \
                draw(st.integers(0, 2 ** 63))
            # a hint that disagrees with the rounded figure shows precedence
            spec['bytes'] = n - draw(st.sampled_from([0, 20, 1])) \
                if n >= 20 else n
        else:
            spec['bytes'] = None
        return spec

    @st.composite
    def cases(draw):
        fields = {'virtual_size': draw(size(True)),
                  'disk_size': draw(size(draw(st.integers(0, 3)) == 0)),
                  'cluster_size': draw(size(False))}
        order = draw(st.permutations(sorted(FIELDS)))
        return {'fn': 'qemu', 'fields': fields, 'order': list(order),
                'image_last': draw(st.booleans())}

    def oracle(col, case):
        text = check_qemu(col, sub, case)
        cls = []
        nt = False
        for f, spec in sorted(case['fields'].items()):
            if spec['kind'] != 'size':
                cls.append('%s/%s' % (f, spec['kind']))
                continue
            nt = nt or bool(spec['unit']) or spec['bytes'] is not None
            cls.append('unit/' + (spec['unit'] or 'none'))
            cls.append('mag/' + ('exp' if 'e' in spec['mag'] else
                                 'decimal' if '.' in spec['mag'] else 'int'))
            if spec['bytes'] is not None:
                cls.append('bytes-hint/' + f)
        col.case(sub, text, nt, sorted(set(cls)), case)

    run_given(col, cases(), oracle, seed, max_examples)


def qemu_table(col):
    """Every unit x a fixed magnitude list x hint/no hint, one field at a
    time (deterministic complement of the Hypothesis search)."""
    sub = 'qemu/table'
    mags = ('0', '1', '2', '64', '96', '1023', '4.4', '3.1', '1.5', '0.5',
            '12.375', '67108844', '1e+03', '5e+04')
    for f in sorted(FIELDS):
        for label in (0, 1):
            for unit in sorted(QEMU_UNITS):
                for m in mags:
                    if unit == '' and '.' in m:
                        continue
                    for gap in (('',) if unit == '' else ('', ' ')):
                        for hint in (None, 0, 4592640, 2 ** 63 + 5):
                            spec = {'kind': 'size', 'mag': m, 'unit': unit,
                                    'gap': gap, 'label': label, 'bytes': hint}
                            fields = {k: {'kind': 'absent'} for k in FIELDS}
                            fields[f] = spec
                            case = {'fn': 'qemu', 'fields': fields}
                            text = check_qemu(col, sub, case)
                            col.case(sub, text, bool(unit) or hint is not None,
                                     ['unit/' + (unit or 'none'),
                                      'hint' if hint is not None else
                                      'no-hint'], case)
            for word in ('None', 'unavailable'):
                fields = {k: {'kind': 'absent'} for k in FIELDS}
                fields[f] = {'kind': 'word', 'word': word, 'label': label}
                case = {'fn': 'qemu', 'fields': fields}
                text = check_qemu(col, sub, case)
                col.case(sub, text, True, 'word/' + word, case)
    col.exhaustive[sub] = True


# -- probes for routed findings --------------------------------------------------------

PROBES = {
    F_L: [{'text': '1kib', 'system': 'mixed', 'return_int': False},
          {'text': '1.5kiB', 'system': 'mixed', 'return_int': True}],
    F_H: [{'text': '1KB\n', 'system': 'IEC', 'return_int': False},
          {'text': '1kb\n', 'system': 'SI', 'return_int': True}],
}


def _registered(name):
    return any(e.get('status') == 'open' and e.get('match') == name
               for e in core.load_known_findings(ID))


def probe_known(col):
    sub = 'probe'
    for name in sorted(PROBES):
        for case in PROBES[name]:
            try:
                check_stb(col, sub, case)
            except Violation as v:
                col.case(sub, repr(case), True, name + '/still_fails', case)
                if _registered(name):
                    col.fail(v)
                else:
                    col.known(sub, name + ' (probe still fails; entry not '
                              'registered in known_findings.json yet, see '
                              'proposed/c10-*.md)')
                    col.notes.append('unregistered finding %s: %s'
                                     % (name, v.msg[:300]))
            else:
                col.case(sub, repr(case), True, name + '/repaired', case)


def stb_format_tokens(col):
    """Malformed texts that carry printf / str.format / regex-replacement
    tokens, alone and around a valid quantity: an error path that formats
    the rejected text must still end in ValueError and nothing else."""
    from vcheck.confusables import FORMAT_TOKENS
    sub = 'stb/format-tokens'
    for t in FORMAT_TOKENS:
        for text in (t, t + 'KB', '1' + t + 'B', '1K' + t, t + '1KB',
                     '1KB' + t, '1 ' + t + ' KB', '-' + t):
            for system in SYSTEMS + UNKNOWN_SYSTEMS:
                for rint in (False, True):
                    case = {'text': text, 'system': system,
                            'return_int': rint}
                    cls, _nt = check_stb(col, sub, case, near=False)
                    col.case(sub, (text, system, rint), True,
                             cls + '/' + str(system), case)
    col.exhaustive[sub] = True


def stb_first_use(col, trials):
    """Schedules: the first conversions in a process, by eight threads at
    once (core.first_use_race) - one unit system per trial, a different
    prefix per thread."""
    sub = 'stb/first-use'

    def make_jobs(t):
        system = SYSTEMS[t % len(SYSTEMS)]
        prefixes = [p for p in ADMITTED[system] if p != 'ki']
        jobs = []
        for i in range(8):
            pre = prefixes[(t + i * 3) % len(prefixes)]
            case = {'text': '%d%sB' % (i + 1, pre), 'system': system,
                    'return_int': bool(i & 1)}
            jobs.append((case['text'], case,
                         lambda c=case: check_stb(core.Collector(), sub, c)))
        return jobs

    core.first_use_race(col, sub, ['oslo_utils.strutils'], make_jobs, trials)


def _pred(fn):
    def pred(rec):
        case = rec.get('case') or {}
        return 'text' in case and fn(case.get('text'), case.get('system'))
    return pred


KNOWN = {F_L: _pred(is_fl), F_H: _pred(is_fh)}


# ---------------------------------------------------------------------------

def tasks(tier, seed):
    if tier == 'quick':
        slen, shards, n_rand, n_qemu = 5, 8, 1500, 500
    else:
        slen, shards, n_rand, n_qemu = 6, 12, 20000, 6000
    out = [Task('probe', probe_known),
           Task('stb/format-tokens', stb_format_tokens),
           Task('stb/first-use', stb_first_use,
                trials=30 if tier == 'quick' else 300)]
    for i in range(shards):
        out.append(Task('stb/random', stb_random,
                        seed=core.derive_seed(seed, ID, 'stb', i),
                        max_examples=n_rand))
    for i in range(shards):
        out.append(Task('qemu/human', qemu_generated,
                        seed=core.derive_seed(seed, ID, 'qemu', i),
                        max_examples=n_qemu))
    out.append(Task('qemu/table', qemu_table))
    for ln in range(slen, -1, -1):
        if ln >= 5:
            for p in itertools.product(SMALL, repeat=ln - 4):
                out.append(Task('stb/strings-exhaustive', stb_strings,
                                length=ln, prefix=''.join(p)))
        else:
            out.append(Task('stb/strings-exhaustive', stb_strings,
                            length=ln, prefix=''))
    for i in range(len(GOOD_MAGS) + len(BAD_MAGS)):
        out.append(Task('stb/grid', stb_grid, mag_index=i))
    return out


def replay(rec):
    case = rec['case']
    sub = rec.get('sub', 'replay')
    col = core.Collector()
    if case.get('first_use_threads'):
        stb_first_use(col, case.get('trial', 0) + 1)
    elif case.get('fn') == 'qemu':
        check_qemu(col, sub, case)
    elif 'text' in case:
        check_stb(col, sub, case)
    else:
        raise core.HarnessError('unknown C10 case %r' % (case,))
