"""C08 - mask_dict_password masks recursively and never modifies its argument.

Reference model (independent recursion over a pinned key list) plus a deep
before/after snapshot of the argument.  A case is a JSON-able *spec* tree from
which the nested mapping is built, so the replay rebuilds exactly the same
object graph without Hypothesis.

spec grammar
  mapping : {"m": <mapping type name>, "items": [[key, value], ...]}
  key     : ["s", str] | ["i", int] | ["t", [scalars...]] | ["b", hex] | ["n"]
  value   : ["s", str] | ["b", hex] | ["i", int] | ["f", float] | ["B", bool]
            | ["n"] | ["l", [value...]] | ["T", [value...]] | mapping
  case    : {"arg": mapping | ["x", name], "secret": null | str}
"""

import collections
import collections.abc
import json
import types

from vcheck import core
from vcheck.core import Task, Violation

ID = 'C08'
LEVEL = 'exploration'
BUDGET = {'quick': 45, 'thorough': 420}
# deterministic sub-checks repeated in a `python -O` child (core.optimized_child)
OPT_SUBS = ('typeerror', 'family')
# documented call interface the generated calls rely on (vcheck/callstyle.py)
INTERFACE = [('oslo_utils.strutils', ['mask_dict_password', 'mask_password'])]
# pairs of sampled cases are run against each other under every single
# preemption inside these modules (core.preempt_pair)
PREEMPT_MODULES = ['oslo_utils.strutils']
RULE = ('family: each of the 35 pinned sanitize keys x 5 case variants x 4 '
        'positions (alone, prefixed, suffixed, embedded) x 8 value kinds x 6 '
        'Mapping types, at depth 1 and nested at depth 2, plus single-edit '
        'near-misses of every key, enumerated; random: Hypothesis-built '
        'mappings of depth <= 4 and width <= 5 over {dict, OrderedDict, '
        'defaultdict, MappingProxyType, UserDict, ChainMap, hand-written '
        'Mapping}, keys str (sanitize keys embedded / near-misses / benign) | '
        'int | tuple | bytes | None, values str (plain and carrying secrets '
        'in the mask_password renderings) | bytes | numbers | None | list | '
        'tuple | mapping, mask default or custom; non-mapping arguments for '
        'the TypeError clause. Non-trivial: depth >= 2, or a non-str key, or '
        'a non-dict Mapping, or a secret key other than the five key strings '
        'of the unit tests; distinct by the JSON of the spec.')
ASSUMPTIONS = [
    'mask_password (the real function, owned by C04) is the reference for '
    'plain string values',
    'the 35 sanitize keys are pinned in this module; keys that contain only '
    'a key added to strutils._SANITIZE_KEYS later are counted as unspecified',
    '"case-insensitively" is decided for ASCII case variants; keys that '
    'match only through non-ASCII case mappings (Kelvin sign, dotted I, long '
    's) are unspecified (masked or passed through, nothing else)',
    'order of the keys in the result is not judged',
]

PINNED = ('adminpass', 'admin_pass', 'password', 'admin_password',
          'auth_token', 'new_pass', 'auth_password', 'secret_uuid', 'secret',
          'sys_pswd', 'token', 'configdrive', 'chappassword', 'encrypted_key',
          'private_key', 'fernetkey', 'sslkey', 'passphrase',
          'cephclusterfsid', 'octaviaheartbeatkey', 'rabbitcookie',
          'cephmanilaclientkey', 'pacemakerremoteauthkey', 'designaterndckey',
          'cephadminkey', 'heatauthencryptionkey', 'cephclientkey',
          'keystonecredential', 'barbicansimplecryptokek', 'cephrgwkey',
          'swifthashsuffix', 'migrationsshkey', 'cephmdskey', 'cephmonkey',
          'chapsecret')
assert len(PINNED) == 35 and len(set(PINNED)) == 35

SUITE_KEY_STRINGS = {'password', 'ipmi_password', 'passwords',
                     'KeystoneFernetKey1', 'keystonecredential0'}

MAPPING_TYPES = ('dict', 'OrderedDict', 'defaultdict', 'MappingProxyType',
                 'UserDict', 'ChainMap', 'custom', 'lazy')


class FrozenMap(collections.abc.Mapping):
    """A Mapping that is not a dict and cannot be written to."""

    def __init__(self, pairs):
        self._keys = []
        self._vals = []
        for k, v in pairs:
            for i, k0 in enumerate(self._keys):
                if type(k0) is type(k) and k0 == k:
                    self._vals[i] = v
                    break
            else:
                self._keys.append(k)
                self._vals.append(v)

    def __getitem__(self, key):
        for k, v in zip(self._keys, self._vals):
            if k == key and type(k) is type(key):
                return v
        raise KeyError(key)

    def __iter__(self):
        return iter(list(self._keys))

    def __len__(self):
        return len(self._keys)

    def __repr__(self):
        return 'FrozenMap(%r)' % (list(zip(self._keys, self._vals)),)


class LazyMap(collections.abc.Mapping):
    """A read-only view that builds its nested mappings anew on every
    access (like a proxy over a config tree): each lookup hands out a fresh,
    short-lived object, so object identities are recycled quickly."""

    def __init__(self, pairs_spec):
        # (built key, value spec) - nested mapping specs stay specs
        self._items = []
        for k, vspec in pairs_spec:
            kk = build_key(k)
            for i, (k0, _v) in enumerate(self._items):
                if type(k0) is type(kk) and k0 == kk:
                    self._items[i] = (kk, vspec)
                    break
            else:
                self._items.append((kk, vspec))

    def __getitem__(self, key):
        for k, vspec in self._items:
            if k == key and type(k) is type(key):
                return build_value(vspec)
        raise KeyError(key)

    def __iter__(self):
        return iter([k for k, _v in self._items])

    def __len__(self):
        return len(self._items)

    def __repr__(self):
        return 'LazyMap(%s)' % json.dumps([[repr(k), v] for k, v in
                                           self._items], sort_keys=True)


class InjectedFault(Exception):
    pass


class FlakyMap(collections.abc.Mapping):
    """A Mapping over another one whose k-th value lookup fails once (a
    proxy over a remote or lazily loaded structure).  After the failure it
    behaves like the mapping it wraps."""

    def __init__(self, inner, fail_at):
        self._inner = inner
        self._countdown = fail_at

    def _tick(self):
        if self._countdown is not None:
            self._countdown -= 1
            if self._countdown < 0:
                self._countdown = None
                raise InjectedFault('lookup failed')

    def __getitem__(self, key):
        v = self._inner[key]
        self._tick()
        return v

    def __iter__(self):
        return iter(self._inner)

    def __len__(self):
        return len(self._inner)

    def __repr__(self):
        return 'FlakyMap(%r)' % (self._inner,)


class _Opaque:
    def __repr__(self):
        return '<opaque>'


class _ItemsOnly:
    """quacks a little: items() and nothing else of a mapping"""

    def items(self):
        return [('password', 'x')]

    def __repr__(self):
        return '<items-only>'


class _ItemsAndKeys(_ItemsOnly):
    def keys(self):
        return ['password']

    def __iter__(self):
        return iter(['password'])

    def __repr__(self):
        return '<items-and-keys>'


def _email_message():
    import email.message
    m = email.message.Message()
    m['password'] = 'x'
    return m


def _namedtuple():
    import collections
    return collections.namedtuple('Creds', 'password')('x')


NON_MAPPINGS = {
    'items-only': lambda: _ItemsOnly(),
    'items-and-keys': lambda: _ItemsAndKeys(),
    'email-message': _email_message,
    'namedtuple': _namedtuple,
    'pairs-generator': lambda: (p for p in [('password', 'x')]),
    'dict_keys': lambda: {'password': 'x'}.keys(),
    'dict_values': lambda: {'password': 'x'}.values(),
    'frozenset': lambda: frozenset(['password']),
    'bytearray': lambda: bytearray(b'password'),
    'list': lambda: [('password', 'x')],
    'list-of-dict': lambda: [{'password': 'x'}],
    'str': lambda: "{'password': 'x'}",
    'bytes': lambda: b'password',
    'none': lambda: None,
    'int': lambda: 7,
    'float': lambda: 0.5,
    'bool': lambda: True,
    'tuple': lambda: (('password', 'x'),),
    'set': lambda: {'password'},
    'object': lambda: _Opaque(),
    'dict_items': lambda: {'password': 'x'}.items(),
    'dict-class': lambda: dict,
}


# -- building objects from specs ----------------------------------------------------

def build_key(k):
    t = k[0]
    if t == 's':
        return k[1]
    if t == 'i':
        return k[1]
    if t == 't':
        return tuple(k[1])
    if t == 'b':
        return bytes.fromhex(k[1])
    if t == 'n':
        return None
    raise core.HarnessError('bad key spec %r' % (k,))


def build_value(v, memo=None):
    if isinstance(v, dict):
        return build_mapping(v, memo)
    t = v[0]
    if t == 's':
        return v[1]
    if t == 'b':
        return bytes.fromhex(v[1])
    if t in ('i', 'f', 'B'):
        return v[1]
    if t == 'n':
        return None
    if t == 'l':
        return [build_value(x, memo) for x in v[1]]
    if t == 'T':
        return tuple(build_value(x, memo) for x in v[1])
    raise core.HarnessError('bad value spec %r' % (v,))


def build_mapping(spec, memo=None):
    """memo (a dict) makes equal sub-specs share one object: the same
    Mapping object is then reachable along several paths (aliasing)."""
    if memo is not None:
        mk = json.dumps(spec, sort_keys=True)
        if mk in memo:
            return memo[mk]
        obj = _build_mapping(spec, memo)
        memo[mk] = obj
        return obj
    return _build_mapping(spec, None)


def _build_mapping(spec, memo):
    m = spec['m']
    if m == 'lazy':
        return LazyMap(spec['items'])
    pairs = [(build_key(k), build_value(v, memo)) for k, v in spec['items']]
    if m == 'dict':
        return dict(pairs)
    if m == 'OrderedDict':
        return collections.OrderedDict(pairs)
    if m == 'defaultdict':
        d = collections.defaultdict(list)
        d.update(pairs)
        return d
    if m == 'MappingProxyType':
        return types.MappingProxyType(dict(pairs))
    if m == 'UserDict':
        return collections.UserDict(dict(pairs))
    if m == 'ChainMap':
        half = len(pairs) // 2
        return collections.ChainMap(dict(pairs[:half]), dict(pairs[half:]))
    if m == 'custom':
        return FrozenMap(pairs)
    raise core.HarnessError('bad mapping type %r' % (m,))


def spec_depth(spec):
    d = 1
    for _k, v in spec['items']:
        if isinstance(v, dict):
            d = max(d, 1 + spec_depth(v))
    return d


def spec_stats(spec, acc=None):
    acc = acc if acc is not None else {
        'types': set(), 'nonstr': False, 'secret_keys': set(), 'values': set()}
    acc['types'].add(spec['m'])
    for k, v in spec['items']:
        if k[0] != 's':
            acc['nonstr'] = True
            acc['values'].add('key/' + {'i': 'int', 't': 'tuple', 'b': 'bytes',
                                         'n': 'None'}[k[0]])
        elif key_verdict(k[1], ()) == 'mask':
            acc['secret_keys'].add(k[1])
        if isinstance(v, dict):
            spec_stats(v, acc)
        else:
            acc['values'].add('value/' + v[0])
    return acc


# -- the model ----------------------------------------------------------------------------

def key_verdict(k, extra):
    """'mask' | 'pass' | 'unspec' for a dictionary key."""
    if not isinstance(k, str):
        return 'pass'
    low = k.lower()
    if any(p in low for p in PINNED):
        # decided by an ASCII-only lowering as well?
        ascii_low = ''.join(c.lower() if c.isascii() else c for c in k)
        if any(p in ascii_low for p in PINNED):
            return 'mask'
        return 'unspec'
    folds = {low, k.casefold(), k.upper().lower(), k.upper().casefold()}
    if any(p in f for p in PINNED for f in folds):
        return 'unspec'
    if any(p in f for p in extra for f in folds):
        return 'unspec'
    return 'pass'


def snapshot(x, stable=True):
    """Structure, reprs and (where objects are stored rather than built on
    access) identities of everything reachable from x."""
    if isinstance(x, collections.abc.Mapping):
        inner = stable and not isinstance(
            getattr(x, '_inner', x) if isinstance(x, FlakyMap) else x,
            LazyMap)
        return ('M', type(x).__name__, id(x) if stable else 0,
                tuple((type(k).__name__, id(k) if stable else 0, repr(k),
                       snapshot(v, inner))
                      for k, v in x.items()))
    if isinstance(x, (list, tuple)):
        return ('L', type(x).__name__, id(x) if stable else 0,
                tuple(snapshot(e, stable) for e in x))
    return ('V', type(x).__name__, id(x) if stable else 0, repr(x))


def compare(col, sub, case, arg, res, secret, strutils, extra, path,
            lazy=False):
    lazy = lazy or isinstance(arg, LazyMap) or (
        isinstance(arg, FlakyMap) and isinstance(arg._inner, LazyMap))
    def bad(msg):
        raise Violation(sub, 'at %s: %s' % ('/'.join(path) or '<top>', msg),
                        case)
    if type(res) is not dict:
        bad('result is %s, not a dict' % type(res).__name__)
    if res is arg:
        bad('the argument itself was returned')
    akeys = list(arg.keys())
    if len(res) != len(akeys) or any(k not in res for k in akeys):
        bad('keys differ: argument %r, result %r' % (akeys, list(res.keys())))
    for k in akeys:
        v = arg[k]
        r = res[k]
        here = path + [repr(k)]
        if isinstance(v, collections.abc.Mapping):
            if not isinstance(r, collections.abc.Mapping):
                bad('mapping under key %r became %r' % (k, r))
            compare(col, sub, case, v, r, secret, strutils, extra, here,
                    lazy)
            continue
        verdict = key_verdict(k, extra)
        if isinstance(v, str):
            passed = strutils.mask_password(v, secret)
            same = isinstance(r, str) and r == passed
        elif lazy:
            # built anew on every access: "returned as it is" can only mean
            # equal in type, structure and content
            passed = v
            same = snapshot(r, False) == snapshot(v, False)
        else:
            passed = v
            same = r is v
        masked = isinstance(r, str) and r == secret
        if verdict == 'mask':
            if not masked:
                bad('value under secret key %r is %r, expected the mask %r'
                    % (k, r, secret))
        elif verdict == 'pass':
            if not same:
                bad('value under key %r is %r, expected %s%r'
                    % (k, r, '' if isinstance(v, str) else 'the same object ',
                       passed))
        else:
            col.unspec(sub, 'key matches only through non-ASCII case '
                       'mapping or a key added later')
            if not (masked or same):
                bad('value under key %r is %r: neither the mask nor the '
                    'passed-through value' % (k, r))


def oracle(col, case, sub='random'):
    from oslo_utils import strutils
    spec = case['arg']
    secret = case.get('secret')
    kw = {} if secret is None else {'secret': secret}
    mask = '***' if secret is None else secret
    if isinstance(spec, list) and spec[0] == 'x':
        arg = NON_MAPPINGS[spec[1]]()
        col.case(sub, ('x', spec[1], secret), True, 'non-mapping/' + spec[1],
                 case)
        try:
            res = strutils.mask_dict_password(arg, **kw)
        except TypeError:
            return
        except Exception as e:
            raise Violation(sub, 'mask_dict_password(%r) raised %r, expected '
                            'TypeError' % (arg, e), case)
        raise Violation(sub, 'mask_dict_password(%r) returned %r, expected '
                        'TypeError' % (arg, res), case)
    extra = tuple(k for k in getattr(strutils, '_SANITIZE_KEYS', ())
                  if isinstance(k, str) and k not in PINNED)
    arg = build_mapping(spec, {} if case.get('share') else None)
    if case.get('fault') is not None:
        # error path, then retry: a first call on this very object dies in
        # the middle of the walk (the fault is the structure's own), the
        # second call - judged below like any other - must be unaffected
        arg = FlakyMap(arg, case['fault'])
        try:
            strutils.mask_dict_password(arg, **kw)
        except InjectedFault:
            pass
        except Exception as e:
            raise Violation(sub, 'a failing lookup inside the argument '
                            'surfaced as %r' % (e,), case)
        arg._countdown = None
    stats = spec_stats(spec)
    depth = spec_depth(spec)
    nontrivial = (depth >= 2 or stats['nonstr'] or
                  stats['types'] != {'dict'} or
                  bool(stats['secret_keys'] - SUITE_KEY_STRINGS))
    cls = ['depth/%d' % depth, 'width/%d' % len(spec['items']),
           'mask/%s' % ('default' if secret is None else 'custom')]
    cls += ['type/' + t for t in sorted(stats['types'])]
    cls += sorted(stats['values'])
    if case.get('share'):
        cls.append('shared-objects')
    if case.get('fault') is not None:
        cls.append('fault-then-retry')
    if stats['secret_keys']:
        cls.append('has-secret-key')
    col.case(sub, json.dumps(case, sort_keys=True), nontrivial, tuple(cls),
             case)
    before = snapshot(arg)
    try:
        res = strutils.mask_dict_password(arg, **kw)
    except Exception as e:
        raise Violation(sub, 'mask_dict_password(%r) raised %r' % (arg, e),
                        case)
    after = snapshot(arg)
    if after != before:
        raise Violation(sub, 'the argument was modified: %r' % (arg,), case)
    compare(col, sub, case, arg, res, mask, strutils, extra, [])
    if snapshot(arg) != before:
        raise Violation(sub, 'the argument was modified', case)


# -- enumerated family ---------------------------------------------------------------------

def case_variants(key):
    alt = ''.join(c.upper() if i % 2 else c for i, c in enumerate(key))
    last = key[:-1] + key[-1].upper()
    return (key, key.upper(), key.title(), alt, last)


POSITIONS = (('alone', '', ''), ('prefixed', 'ipmi_', ''),
             ('suffixed', '', '1'), ('embedded', 'x-', 's_old'))

VALUE_KINDS = (['s', 'TL0EfN33'], ['s', ''], ['b', b'TL0EfN33'.hex()],
               ['i', 12345], ['f', 0.1], ['B', True], ['n'],
               ['l', [['s', 'a'], ['i', 1]]])


def near_misses(key):
    out = set()
    for i in range(len(key)):
        out.add(key[:i] + key[i + 1:])                 # deletion
        out.add(key[:i] + '-' + key[i:])               # separator inserted
        out.add(key[:i] + ('x' if key[i] != 'x' else 'y') + key[i + 1:])
    out.add(key[::-1])
    out.add(key + key[:-1])
    out.discard(key)
    return sorted(out)


def family(col, lo, hi):
    sub = 'family'
    n = 0
    for ki in range(lo, hi):
        key = PINNED[ki]
        for vi, variant in enumerate(case_variants(key)):
            for pi, (_pname, pre, suf) in enumerate(POSITIONS):
                kstr = pre + variant + suf
                val = VALUE_KINDS[(ki + vi + pi) % len(VALUE_KINDS)]
                mtype = MAPPING_TYPES[(ki + 2 * vi + 3 * pi) %
                                      len(MAPPING_TYPES)]
                inner = {'m': mtype, 'items': [
                    [['s', 'user'], ['s', 'admin']],
                    [['s', kstr], val],
                    [['s', 'cmd'], ['s', 'run --%s hunter2 now' % key]]]}
                oracle(col, {'arg': inner, 'secret': None}, sub)
                oracle(col, {'arg': inner, 'secret': None,
                             'fault': (ki + vi + pi) % 4}, sub)
                outer = {'m': MAPPING_TYPES[(ki + vi) % len(MAPPING_TYPES)],
                         'items': [[['s', kstr], inner],
                                   [['i', ki], ['s', 'plain']],
                                   [['s', 'list'], ['l', [inner]]]]}
                oracle(col, {'arg': outer,
                             'secret': '???' if (vi + pi) % 2 else None}, sub)
                if pi == 0:
                    twice = {'m': 'dict', 'items': [
                        [['s', 'a'], inner], [['s', 'b'], inner],
                        [['s', kstr], inner]]}
                    oracle(col, {'arg': twice, 'secret': None,
                                 'share': True}, sub)
                n += 2
        # every value kind under the plain key, every mapping type
        for val in VALUE_KINDS:
            for mtype in MAPPING_TYPES:
                oracle(col, {'arg': {'m': mtype, 'items': [[['s', key], val]]},
                             'secret': None}, sub)
        # non-str keys that spell the sanitize key
        for kspec in (['b', key.encode().hex()], ['t', [key]],
                      ['t', [key, 1]]):
            oracle(col, {'arg': {'m': 'dict', 'items': [
                [kspec, ['s', 'TL0EfN33']],
                [['s', 'user'], ['s', '--%s abc' % key]]]},
                'secret': None}, sub)
        for nm in near_misses(key):
            oracle(col, {'arg': {'m': 'dict', 'items': [
                [['s', nm], ['s', 'TL0EfN33']],
                [['s', nm.upper()], ['i', 7]]]}, 'secret': None}, sub)
    col.exhaustive[sub] = True


def lazy_chains(col):
    """Deterministic: chains of lazily built mappings (every level is a
    fresh, short-lived object, freed as soon as the walk lets go of it), of
    1..3 nested levels and 1..3 children per level, with secrets at the
    bottom.  Object addresses are recycled here as a matter of course: any
    bookkeeping keyed on id() of objects that are not kept alive goes wrong."""
    sub = 'lazy-chains'
    for depth in (1, 2, 3):
        for width in (1, 2, 3):
            for leaf in ([[['s', 'password'], ['s', 'hunter2']],
                          [['s', 'note'], ['s', 'token = abc']]],
                         [[['s', 'x'], ['i', 1]]]):
                spec = {'m': 'lazy', 'items': leaf}
                for d in range(depth):
                    spec = {'m': 'lazy', 'items': [
                        [['s', 'k%d_%d' % (d, i)], spec]
                        for i in range(width)]}
                oracle(col, {'arg': spec, 'secret': None}, sub)
                oracle(col, {'arg': {'m': 'dict', 'items': [
                    [['s', 'outer'], spec]]}, 'secret': '???'}, sub)
    col.exhaustive[sub] = True


def type_errors(col):
    sub = 'typeerror'
    for name in sorted(NON_MAPPINGS):
        for secret in (None, '???'):
            oracle(col, {'arg': ['x', name], 'secret': secret}, sub)
    col.exhaustive[sub] = True


# -- random search ------------------------------------------------------------------------------

SECRET_STRINGS = (
    "--password abc", "password=hunter2", "'adminPass' : 'aaaaa'",
    '"password" : "aaaaa"', "<password>x</password>", "token = 'abc def'",
    "auth_token:12345", "test = cmd --password my\xe9\x80\x80pass",
    "{'password': 'abc', 'user': 'bob'}", "secret_uuid=71", "PASSWORD = X",
    "url: http://u:pw@host/", "sslkey: -----BEGIN-----")


def _pools():
    """Flat pools of key / scalar specs: one Hypothesis choice per draw."""
    keys = []
    affixes = (('', ''), ('ipmi_', ''), ('', '1'), ('Keystone', 's'),
               ('x-', '_old'), (' ', '.'), ('\xe9', ''), ('_', '_'))
    for i, k in enumerate(PINNED):
        for j, variant in enumerate(case_variants(k)):
            pre, suf = affixes[(i + j) % len(affixes)]
            keys.append(['s', variant])
            keys.append(['s', pre + variant + suf])
        nm = near_misses(k)
        for j in range(0, len(nm), max(1, len(nm) // 6)):
            keys.append(['s', nm[j]])
        keys.append(['b', k.encode().hex()])
        keys.append(['t', [k]])
    benign = ['user', 'name', 'home-dir', 'id', 'key', 'pass', 'word', 'tok',
              'en', '', 'strval', 'dictval', 'nested', 'secre', 'ecret',
              'passwor', 'PASS', 'Toke', 'list', 'cmd']
    for _ in range(12):
        keys.extend(['s', b] for b in benign)
    for _ in range(20):
        keys.extend([['i', 0], ['i', 1], ['i', -1], ['i', 2], ['n'],
                     ['t', []], ['t', [1, 2]], ['b', ''], ['b', '00ff']])
    # Kelvin sign, long s, dotted capital I, capital sharp s, fi ligature
    keys.extend(['s', x] for x in (
        'to\u212aen', 'TO\u212aEN', 'pa\u017f\u017fword', 'conf\u0130gdrive',
        'CONF\u0130GDRIVE', '\u017fecret', 'PA\u1e9eWORD',
        '\ufb01rst_password', 'token\u0130', '\u212aey'))
    values = []
    for _ in range(3):
        values.extend(['s', x] for x in SECRET_STRINGS)
        values.extend(['s', x] for x in ('admin', 'somestring', '', '***',
                                         'this is fine', 'caf\xe9'))
    values.extend([['b', ''], ['b', b'TL0EfN33'.hex()], ['b', 'ff00'],
                   ['i', 0], ['i', 123], ['i', -5], ['i', 10 ** 12],
                   ['f', 0.0], ['f', 0.1], ['f', -2.5], ['f', 1e300],
                   ['B', True], ['B', False], ['n'], ['n'],
                   ['l', []], ['l', [['i', 1], ['i', 2]]],
                   ['l', [['s', '--password abc']]],
                   ['T', []], ['T', [['s', 'password=x'], ['n']]],
                   ['l', [{'m': 'dict', 'items': [[['s', 'password'],
                                                   ['s', 'x']]]}]]])
    return keys, values


def _strategies():
    from hypothesis import strategies as st
    key_pool, value_pool = _pools()
    key = st.one_of(
        st.sampled_from(key_pool), st.sampled_from(key_pool),
        st.sampled_from(key_pool),
        st.text(alphabet='abcdeknoprstwy_-1', max_size=7).map(
            lambda s: ['s', s]))
    scalar = st.one_of(
        st.sampled_from(value_pool), st.sampled_from(value_pool),
        st.sampled_from(value_pool),
        st.text(max_size=8).map(lambda s: ['s', s]),
        st.lists(st.sampled_from(value_pool), max_size=3).map(
            lambda x: ['l', x]))

    def mapping_of(values, width=5, min_size=0):
        return st.fixed_dictionaries({
            'm': st.sampled_from(MAPPING_TYPES + ('dict', 'dict')),
            'items': st.lists(st.tuples(key, values).map(list),
                              min_size=min_size, max_size=width)})

    lvl4 = mapping_of(scalar, 3)
    lvl3 = mapping_of(st.one_of(scalar, lvl4), 3)
    lvl2 = mapping_of(st.one_of(scalar, lvl3, lvl3), 3)
    top = mapping_of(st.one_of(scalar, scalar, scalar, lvl2, lvl2, lvl3, lvl4),
                     5)
    # a spine that reaches depth 3 / 4 by construction
    deep4 = mapping_of(st.one_of(scalar, lvl4, lvl4), 3, 1)
    deep3 = mapping_of(st.one_of(scalar, deep4, deep4), 3, 1)
    deep = mapping_of(st.one_of(scalar, deep3, deep3, deep4), 4, 1)
    secret = st.sampled_from([None, None, '???', '', 'MASKED', '*',
                              '\\g<0>', 'C:\\masked'])

    @st.composite
    def cases(draw):
        arg = draw(st.one_of(top, deep))
        case = {'arg': arg, 'secret': draw(secret)}
        nested = [v for _k, v in arg['items'] if isinstance(v, dict)]
        if nested and draw(st.integers(0, 2)) == 0:
            # the same mapping (object) stored again: as a sibling, inside a
            # list, and one level further down
            dup = draw(st.sampled_from(nested))
            arg['items'].append([['s', 'again'], dup])
            if draw(st.booleans()):
                arg['items'].append([['s', 'in_list'], ['l', [dup, dup]]])
            if draw(st.booleans()):
                arg['items'].append([['s', 'wrapped'],
                                     {'m': 'dict',
                                      'items': [[['s', 'inner'], dup]]}])
            case['share'] = True
        return case
    return cases()


def search(col, seed, max_examples):
    core.run_given(col, _strategies(), oracle, seed, max_examples)


# -- entry points -------------------------------------------------------------------------------

def tasks(tier, seed):
    if tier == 'quick':
        n, shards = 1500, 8
    else:
        n, shards = 6000, 14
    out = [Task('typeerror', type_errors), Task('lazy-chains', lazy_chains)]
    for lo in range(0, len(PINNED), 5):
        out.append(Task('family', family, lo=lo, hi=min(len(PINNED), lo + 5)))
    for i in range(shards):
        out.append(Task('random', search,
                        seed=core.derive_seed(seed, ID, 'random', i),
                        max_examples=n))
    return out


def replay(rec):
    oracle(core.Collector(), rec['case'], rec.get('sub') or 'replay')
