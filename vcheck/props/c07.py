"""C07 - virtual_size equals the disk size the image declares.

Round trip against the builder's ground truth (vcheck.imggen builds every
image from the published layout and knows the size it wrote), plus prefix
enumeration for the "0 while the size-carrying structure is not captured"
clause.
"""

from vcheck import chunking, core, imgdrive
from vcheck.core import Task, Violation

ID = 'C07'
LEVEL = 'exploration'
BUDGET = {'quick': 60, 'thorough': 600}
# deterministic sub-checks repeated in a `python -O` child (core.optimized_child)
OPT_SUBS = ('sweep',)
# documented call interface the generated calls rely on (vcheck/callstyle.py)
INTERFACE = [('oslo_utils.imageutils.format_inspector', None)]
RULE = ('well-formed images of the ten formats built from their layouts with '
        'the declared size drawn over the whole field range (0, 1, 2^k+-1, '
        '2^32+-1, 2^63, 2^64-1, random; ISO: u32 blocks x u16 block size; '
        'VMDK: u64 sectors) x admissible layouts (VHDX table entry order and '
        '0..2045 padding entries, metadata region placement, item offsets; '
        'VMDK descriptor length, footer; ISO block sizes) x schedules '
        '(512-byte, giant, boundary-aimed, random): virtual_size after '
        'finish() must equal the size written. Prefix clause: every proper '
        'prefix (all of them for the <= 2 KiB formats, boundary +-1 and '
        'sampled for ISO/VMDK/VHDX), with and without finish(): 0 before the '
        'end of the size field, the declared size from the end of the '
        'structure the format defines, either in between. Non-trivial: size '
        'not in {0, builder default} and (non-default layout or '
        'boundary-aimed schedule or proper-prefix case); distinct by (format, '
        'params, schedule/prefix).')
ASSUMPTIONS = [
    'imggen writes the size field where the format documents put it '
    '(independent of the inspector code); a disagreement is triaged against '
    'the documents before it is reported',
    'VHDX images with the metadata region at 256/320 KiB are treated as '
    'well-formed for speed (the spec places regions at >= 1 MiB; the thorough '
    'tier also uses 1/2/3 MiB)',
    'LUKS / raw / GPT have no "0 while unknown" clause in the statement',
]

PREFIX_FORMATS = ('qcow2', 'vhd', 'vhdx', 'vmdk', 'vdi', 'iso')


def _vsize(insp):
    try:
        return insp.virtual_size
    except Exception as e:
        return 'raises:' + type(e).__name__


def check_full(col, case, sub='full'):
    from vcheck import imggen
    fmt, params = case['fmt'], case['params']
    img = imggen.build(fmt, params)
    sched = case['schedule']
    if img.vsize is None or not img.clean:
        raise core.HarnessError('C07 generator produced a non-well-formed '
                                'image: %r' % (img.brief(),))
    qplan = case.get('queries')
    if qplan == 'all':
        queries = set(range(len(chunking.sizes_of(sched, len(img.data)))))
    else:
        queries = set(qplan) if qplan else None
    imgdrive.tracing_for((fmt, repr(sorted(params.items(), key=repr)),
                          repr(sched)))
    v, insp, _f = imgdrive.drive(fmt, img.data, sched, queries=queries)
    got = v[3]
    # instance isolation: another inspector of the same class is driven over
    # a different image (other declared size) and over junk; what the first
    # one concluded must not move
    other = imggen.build(fmt, {})
    if other.vsize == img.vsize and fmt not in ('raw', 'gpt', 'luks'):
        other = imggen.build(fmt, {'capacity' if fmt == 'vmdk' else
                                   ('blocks' if fmt == 'iso' else 'size'): 7})
    imgdrive.drive(fmt, other.data, ['fixed', 65536])
    imgdrive.drive(fmt, b'\x07' * 700, ['fixed', 512])
    again = _vsize(insp)
    if again != got:
        raise Violation(
            sub, '%s: virtual_size of a finished inspector changed from %r '
            'to %r after OTHER inspectors of the same class had processed '
            'other streams' % (fmt, got, again), case)
    n = len(img.data)
    default = imggen.BUILDERS[fmt]().vsize
    aimed = chunking.near_boundary(sched, n, img.boundaries)
    nontrivial = img.vsize not in (0, default) and (
        aimed or len(params) > 2)
    col.case(sub, (fmt, sorted(params.items(), key=repr), sched,
                   repr(case.get('queries'))), nontrivial,
             ['fmt=' + fmt, 'sizeclass=' + _size_class(img.vsize)],
             {'fmt': fmt, 'params': params, 'declared': img.vsize,
              'schedule': sched if sched[0] == 'fixed' or
              len(sched[1]) < 12 else 'sizes[%d]' % len(sched[1])})
    if v[0] is not None:
        raise Violation(sub, '%s inspector raised %s on a well-formed image'
                        % (fmt, v[0]), case)
    if got != img.vsize:
        raise Violation(
            sub, '%s: virtual_size is %r after the whole stream (%d bytes, '
            'schedule %s) but the image declares %d'
            % (fmt, got, n, sched if sched[0] == 'fixed' else
               sched[1][:8], img.vsize), case)
    if v[1] is not True or v[2] is not True:
        raise Violation(sub, '%s: well-formed image, but format_match=%r '
                        'complete=%r' % (fmt, v[1], v[2]), case)


def check_wrapper(col, case, sub='wrapper'):
    """The same claim through InspectWrapper (read / iterate / pipe-like
    source, empty reads included): the inspector it settles on reports the
    declared size."""
    from vcheck import imggen
    fmt, params = case['fmt'], case['params']
    img = imggen.build(fmt, params)
    if img.vsize is None or not img.clean:
        raise core.HarnessError('non-well-formed image %r' % (img.brief(),))
    sched = case['schedule']
    mode = case.get('mode', 'read')
    (fm, fs), _s, got, err, w = imgdrive.drive_wrapper(
        img.data, sched, mode, sample=bool(case.get('poll')))
    col.case(sub, (fmt, sorted(params.items(), key=repr), sched, mode,
                   case.get('poll')), img.vsize not in (0,),
             ['fmt=' + fmt, 'mode=' + mode,
              'poll' if case.get('poll') else 'nopoll'],
             {'fmt': fmt, 'params': params, 'mode': mode,
              'declared': img.vsize})
    if err is not None or got != img.data:
        raise Violation(sub, '%s: reading the image through InspectWrapper '
                        '(%s) failed: error=%r' % (fmt, mode, err), case)
    if fm != fmt:
        raise Violation(sub, '%s image detected as %r' % (fmt, fm), case)
    v = _vsize(w.format)
    if v != img.vsize:
        raise Violation(
            sub, '%s: virtual_size through InspectWrapper (%s, schedule %s) '
            'is %r but the image declares %d'
            % (fmt, mode, sched if sched[0] == 'fixed' else sched[1][:8], v,
               img.vsize), case)


def wrapper_search(col, seed, max_examples, fmts):
    from hypothesis import strategies as st
    from vcheck import imggen, imgstrat

    @st.composite
    def cases(draw):
        fmt = draw(st.sampled_from(fmts))
        if fmt == 'vhdx':
            params = draw(imgstrat.vhdx_params(conformant=True))
        else:
            params = draw(imgstrat.params_for(fmt, safe=True))
        img = imggen.build(fmt, params)
        sched = draw(chunking.schedules(len(img.data), img.boundaries,
                                        allow_tiny=len(img.data) <= 20000))
        return {'fmt': fmt, 'params': params, 'schedule': sched,
                'mode': draw(st.sampled_from(['read', 'iter', 'short'])),
                'poll': draw(st.booleans())}
    core.run_given(col, cases(), lambda c, case: check_wrapper(c, case),
                   seed, max_examples)


def wrapper_sweep(col):
    """Deterministic: each format's default image, three sources, with an
    empty read first / in the middle / none, polled and not."""
    from vcheck import imggen
    sub = 'wrapper'
    for fmt in imggen.FORMATS:
        if fmt == 'qed':
            continue
        img = imggen.build(fmt, {})
        n = len(img.data)
        cut = min(n // 2, 700)
        for sched in (['sizes', [n]], ['sizes', [0, n]],
                      ['sizes', [cut, 0, n - cut]], ['fixed', 512],
                      ['sizes', [cut, n - cut, 0]]):
            if n / 512 > 2000 and sched == ['fixed', 512]:
                sched = ['fixed', 65536]
            for mode in ('read', 'iter', 'short'):
                for poll in (False, True):
                    check_wrapper(col, {'fmt': fmt, 'params': {},
                                        'schedule': sched, 'mode': mode,
                                        'poll': poll}, sub)
    col.exhaustive.setdefault(sub, True)


def _size_class(v):
    if v == 0:
        return '0'
    if v < 2 ** 32:
        return '<2^32'
    if v < 2 ** 63:
        return '<2^63'
    return '>=2^63'


def check_prefix(col, case, sub='prefix'):
    """case: fmt, params, cut (prefix length), finish (bool), chunk."""
    from vcheck import imggen
    fmt, params = case['fmt'], case['params']
    img = imggen.build(fmt, params)
    cut = case['cut']
    data = img.data[:cut]
    imgdrive.tracing_for((fmt, cut, repr(case.get('schedule'))))
    insp = imgdrive.new_inspector(fmt)
    err = None
    for chunk in chunking.chunks(data, case.get('schedule') or
                                 ['sizes', [len(data)]]):
        try:
            insp.eat_chunk(chunk)
        except Exception as e:
            err = type(e).__name__
            break
    if case.get('finish'):
        insp.finish()
    got = _vsize(insp)
    if err is not None:
        raise Violation(sub, '%s inspector raised %s on a %d-byte prefix of '
                        'a well-formed image' % (fmt, err, cut), case)
    if cut < img.size_field_end:
        allowed = (0,)
        zone = 'before-field-end'
    elif cut >= img.struct_end:
        allowed = (img.vsize,)
        zone = 'after-struct-end'
    else:
        allowed = (0, img.vsize)
        zone = 'between'
    col.case(sub, (fmt, sorted(params.items(), key=repr), cut,
                   case.get('finish'), case.get('schedule')),
             img.vsize not in (0,), ['fmt=' + fmt, 'zone=' + zone,
                                     'finish' if case.get('finish')
                                     else 'nofinish'],
             {'fmt': fmt, 'params': params, 'cut': cut,
              'finish': case.get('finish'), 'declared': img.vsize})
    if got not in allowed:
        raise Violation(
            sub, '%s: virtual_size is %r after a %d-byte prefix (size field '
            'ends at %d, structure at %d, finish=%r); allowed %r'
            % (fmt, got, cut, img.size_field_end, img.struct_end,
               case.get('finish'), allowed), case)


# ------------------------------------------------------------------ searches

def _full_strategy(fmts):
    from hypothesis import strategies as st
    from vcheck import imggen, imgstrat

    @st.composite
    def cases(draw):
        fmt = draw(st.sampled_from(fmts))
        if fmt == 'vhdx':
            params = draw(imgstrat.vhdx_params(conformant=True, small=draw(
                st.integers(0, 5)) > 0))
        else:
            params = draw(imgstrat.params_for(fmt, safe=True))
        img = imggen.build(fmt, params)
        sched = draw(chunking.schedules(
            len(img.data), img.boundaries,
            allow_tiny=len(img.data) <= 70000))
        nchunks = len(chunking.sizes_of(sched, len(img.data)))
        queries = draw(st.one_of(
            st.none(), st.just('all') if nchunks <= 600 else st.none(),
            st.lists(st.integers(0, max(0, min(nchunks, 600) - 1)),
                     max_size=4, unique=True)))
        return {'fmt': fmt, 'params': params, 'schedule': sched,
                'queries': queries}
    return cases()


def full(col, seed, max_examples, fmts):
    core.run_given(col, _full_strategy(fmts),
                   lambda c, case: check_full(c, case), seed, max_examples)


LIMIT_IMAGES = (
    # tables at the largest entry count their format allows, the size item
    # first / last / in the middle
    ('vhdx', dict(size=12345678, meta_before=2046, meta_after=0)),
    ('vhdx', dict(size=12345678, meta_before=0, meta_after=2046)),
    ('vhdx', dict(size=2 ** 63 + 5, meta_before=1000, meta_after=1046)),
    ('vhdx', dict(size=999, region_before=2045, region_after=0)),
    ('vhdx', dict(size=999, region_before=0, region_after=2045)),
    ('vhdx', dict(size=77, region_before=1000, region_after=1045,
                  meta_before=1023, meta_after=1023)),
    ('vmdk', dict(capacity=777, desc_num=2047)),
    ('vmdk', dict(capacity=777, desc_num=2047, footer=True)),
    ('vmdk', dict(capacity=777, desc_num=2046, exact_fill=True,
                  final_newline=False)),
)


def limits(col):
    """Well-formed images whose tables are as large as their format allows
    (2047 metadata entries, 2047 region entries, 2047 descriptor sectors)."""
    from vcheck import imggen
    sub = 'limits'
    for fmt, p in LIMIT_IMAGES:
        n = len(imggen.build(fmt, p).data)
        for sched in (['fixed', 512], ['fixed', 65536], ['sizes', [n]],
                      ['fixed', 4099]):
            check_full(col, {'fmt': fmt, 'params': p, 'schedule': sched,
                             'queries': None}, sub)
    # the size-carrying entry last (or alone) in its table, and a cut at
    # every byte of that entry; small odd chunk sizes on the same images
    from vcheck import chunking
    for before in (0, 1, 2, 15, 47):
        p = dict(size=4321 + before, meta_before=before, meta_after=0)
        img = imggen.build('vhdx', p)
        n = len(img.data)
        start = img.params['meta_offset'] + 32 + 32 * before
        for c in range(start - 2, start + 35):
            check_full(col, {'fmt': 'vhdx', 'params': p,
                             'schedule': chunking.from_cuts(n, [c]),
                             'queries': None}, sub)
        for k in (17, 31, 513):
            check_full(col, {'fmt': 'vhdx', 'params': p,
                             'schedule': ['fixed', k], 'queries': None}, sub)
    # createType (and the extent line) far down a descriptor of several
    # sectors: the declared size is still the header's capacity
    base = list(imggen.VMDK_DEFAULT_LINES)
    filler = ['# filler line %03d ..............................' % i
              for i in range(200)]
    for k in (12, 22, 72, 180):
        for footer in (False, True):
            p = dict(capacity=1000 + k, footer=footer,
                     lines=base[:1] + filler[:k] + base[1:])
            n = len(imggen.build('vmdk', p).data)
            for sched in (['fixed', 512], ['sizes', [n]], ['fixed', 4099]):
                check_full(col, {'fmt': 'vmdk', 'params': p,
                                 'schedule': sched, 'queries': None}, sub)
    col.exhaustive[sub] = True


def size_sweep(col, fmt):
    """Every edge size value for one format, reference schedule."""
    from vcheck import imgstrat
    sub = 'sweep'
    for v in imgstrat.U64_EDGES:
        if fmt == 'iso':
            cases = []
            for bs in (512, 2048, 4096, 65535, 1):
                cases.append(dict(blocks=v & 0xffffffff, block_size=bs))
        elif fmt == 'vmdk':
            cases = [dict(capacity=v), dict(capacity=v, footer=True)]
            for ef in (False, True):
                for fn in (False, True):
                    for tl in (False, True):
                        cases.append(dict(capacity=v, exact_fill=ef,
                                          final_newline=fn, type_last=tl,
                                          footer=bool(v & 1)))
        elif fmt == 'luks':
            cases = [dict(payload_offset=v % 64, payload=v % 5000)]
        elif fmt in ('raw', 'gpt'):
            cases = [dict(length=512 + v % 9000)]
        else:
            cases = [dict(size=v)]
        for p in cases:
            for sched in (['fixed', 512], ['sizes', [10 ** 9]]):
                from vcheck import imggen
                n = len(imggen.build(fmt, p).data)
                s = sched if sched[0] == 'fixed' else ['sizes', [n]]
                check_full(col, {'fmt': fmt, 'params': p, 'schedule': s,
                                 'queries': 'all' if sched[0] == 'fixed'
                                 else None}, sub)
    col.exhaustive[sub] = True


def prefixes_all(col, fmt, params, finish):
    """Every proper prefix of a small image."""
    from vcheck import imggen
    sub = 'prefix'
    img = imggen.build(fmt, params)
    for cut in range(0, len(img.data)):
        check_prefix(col, {'fmt': fmt, 'params': params, 'cut': cut,
                           'finish': finish}, sub)
        if cut % 7 == 0:
            check_prefix(col, {'fmt': fmt, 'params': params, 'cut': cut,
                               'finish': finish,
                               'schedule': ['fixed', 3]}, sub)


def prefixes_aimed(col, fmt, params, finish, extra=()):
    from vcheck import imggen
    sub = 'prefix'
    img = imggen.build(fmt, params)
    cuts = set(extra)
    for b in img.boundaries + [img.size_field_end, img.struct_end]:
        for d in (-1, 0, 1):
            if 0 <= b + d < len(img.data):
                cuts.add(b + d)
    for cut in sorted(cuts):
        for sched in (None, ['fixed', 4096]):
            check_prefix(col, {'fmt': fmt, 'params': params, 'cut': cut,
                               'finish': finish, 'schedule': sched}, sub)


def prefix_random(col, seed, max_examples, fmts):
    from hypothesis import strategies as st
    from vcheck import imggen, imgstrat

    @st.composite
    def cases(draw):
        fmt = draw(st.sampled_from(fmts))
        if fmt == 'vhdx':
            params = draw(imgstrat.vhdx_params(conformant=True))
        else:
            params = draw(imgstrat.params_for(fmt, safe=True))
        img = imggen.build(fmt, params)
        cands = [b + d for b in img.boundaries + [img.size_field_end,
                                                  img.struct_end]
                 for d in (-1, 0, 1) if 0 <= b + d < len(img.data)]
        cut = draw(st.one_of(st.sampled_from(cands),
                             st.integers(0, len(img.data) - 1)))
        sched = draw(st.one_of(st.none(), chunking.schedules(
            cut, img.boundaries, allow_tiny=cut <= 70000)))
        return {'fmt': fmt, 'params': params, 'cut': cut,
                'finish': draw(st.booleans()), 'schedule': sched}
    core.run_given(col, cases(),
                   lambda c, case: check_prefix(c, case, 'prefix'),
                   seed, max_examples)


SMALL = ('raw', 'qcow2', 'vhd', 'vmdk', 'vdi', 'gpt', 'luks')


def tasks(tier, seed):
    out = []
    for fmt in ('raw', 'qcow2', 'vhd', 'vmdk', 'vdi', 'iso', 'gpt', 'luks',
                'vhdx'):
        out.append(Task('sweep', size_sweep, fmt=fmt))
    out.append(Task('limits', limits))
    big = 2 ** 63 + 12345
    small_imgs = [('qcow2', dict(size=big, version=3)),
                  ('qcow2', dict(size=77, version=2)),
                  ('vhd', dict(size=big)), ('vdi', dict(size=big)),
                  ('vmdk', dict(capacity=2 ** 40 + 3)),
                  ('vmdk', dict(capacity=12345, footer=True, desc_num=2))]
    for fmt, p in small_imgs:
        for fin in (False, True):
            out.append(Task('prefix', prefixes_all, fmt=fmt, params=p,
                            finish=fin))
    aimed = [('iso', dict(blocks=123456, block_size=2048)),
             ('iso', dict(blocks=2 ** 32 - 1, block_size=4096,
                          ident='NSR02')),
             ('vhdx', dict(size=big)),
             ('vhdx', dict(size=big, meta_before=9, meta_after=5,
                           region_before=2, item_offset=64 * 1024 + 8)),
             ('vhdx', dict(size=5, meta_before=2045, meta_after=0))]
    for fmt, p in aimed:
        for fin in (False, True):
            out.append(Task('prefix', prefixes_aimed, fmt=fmt, params=p,
                            finish=fin))
    if tier == 'quick':
        plan = [(SMALL, 500, 4), (('iso',), 150, 1), (('vhdx',), 100, 5)]
        pplan = [(('qcow2', 'vhd', 'vmdk', 'vdi'), 400, 2),
                 (('iso', 'vhdx'), 120, 3)]
    else:
        plan = [(SMALL, 6000, 5), (('iso',), 1500, 2), (('vhdx',), 900, 8)]
        pplan = [(('qcow2', 'vhd', 'vmdk', 'vdi'), 5000, 3),
                 (('iso', 'vhdx'), 1200, 6)]
    for fmts, ex, shards in plan:
        for i in range(shards):
            out.append(Task('full', full,
                            seed=core.derive_seed(seed, ID, 'full', fmts, i),
                            max_examples=ex, fmts=fmts))
    out.append(Task('wrapper', wrapper_sweep))
    for i in range(2 if tier == 'quick' else 6):
        out.append(Task('wrapper', wrapper_search,
                        seed=core.derive_seed(seed, ID, 'wrap', i),
                        max_examples=150 if tier == 'quick' else 1500,
                        fmts=SMALL + ('iso', 'vhdx')))
    for fmts, ex, shards in pplan:
        for i in range(shards):
            out.append(Task('prefix', prefix_random,
                            seed=core.derive_seed(seed, ID, 'pre', fmts, i),
                            max_examples=ex, fmts=fmts))
    return out


def replay(rec):
    case = rec['case']
    col = core.Collector()
    if 'cut' in case:
        check_prefix(col, case)
    elif rec.get('sub') == 'wrapper' or 'mode' in case:
        check_wrapper(col, case)
    else:
        check_full(col, case)
