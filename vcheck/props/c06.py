"""C06 - InspectWrapper is a transparent pipe that isolates inspector faults.

Fault enumeration with instrumented inspectors: format_inspector.ALL_FORMATS
is patched (and restored) with recording subclasses of the real inspectors
whose eat_chunk logs every call and raises a chosen exception at a chosen call
index.  A pristine shadow instance of every original class, fed the same
chunks outside the wrapper, tells where real parser errors and the expected
format's "complete without matching" point lie.
"""

import io
import struct

from vcheck import chunking, core, imgdrive
from vcheck.core import Task, Violation

ID = 'C06'
LEVEL = 'fault_enumeration'
BUDGET = {'quick': 60, 'thorough': 600}
# deterministic sub-checks repeated in a `python -O` child (core.optimized_child)
OPT_SUBS = ('single#9',)
# documented call interface the generated calls rely on (vcheck/callstyle.py)
INTERFACE = [('oslo_utils.imageutils.format_inspector', None)]
RULE = ('sources: valid images, crafted contents that make real parsers '
        'raise (VMDK bad version / descriptor location, VHDX bad region '
        'signature), zeros, random, as BytesIO with read-size sequences and '
        'as chunk iterators (empty chunks included). Fault plans: every '
        'single fault (10 inspectors x every chunk index x 9 exception '
        'kinds, incl. message-less and oddly rendering ones) x expected_format in {None, each of the ten names} '
        'exhaustively on a fixed set of sources; multiple simultaneous '
        'faults, allowed_formats subsets and generated sources sampled with '
        'Hypothesis. Checked: bytes handed to the reader, calls reaching '
        'each inspector, which read raises what (identity of the injected '
        'exception), source position after an abort, finish/close. '
        'Non-trivial: a fault at chunk index >= 1, or a fault in the '
        'expected format\'s inspector, or a real parser error; distinct by '
        '(source hash, schedule, mode, plan, expected, allowed).')
ASSUMPTIONS = [
    'InspectWrapper builds its inspectors from format_inspector.ALL_FORMATS '
    '(guarded: every recording subclass must have been called, else the run '
    'reports seam_unreachable)',
    'BaseExceptions that are not Exceptions (KeyboardInterrupt) are outside '
    'the claim and not injected',
    'the wrapper iterates an unordered set: at the chunk where the expected '
    'format aborts the stream other inspectors may or may not have seen that '
    'chunk; never a later one',
]

FAULTS = ('Exception', 'ValueError', 'struct.error', 'ImageFormatError',
          'RuntimeError', 'MemoryError',
          # exception objects without a message / with odd renderings: the
          # wrapper must not depend on str(e), truthiness or equality of e
          'bare:ValueError', 'bare:Exception', 'custom:Quiet')


class _Quiet(Exception):
    """An exception whose rendering is empty and which compares equal to
    everything (hostile to code that stores / compares exception values)."""

    def __str__(self):
        return ''

    def __repr__(self):
        return ''

    def __eq__(self, other):
        return True

    def __hash__(self):
        return 0

    def __bool__(self):
        return False
NAMES = ('raw', 'qcow2', 'vhd', 'vhdx', 'vmdk', 'vdi', 'qed', 'iso', 'gpt',
         'luks')


def _make_exc(kind, F):
    if kind.startswith('bare:'):
        return getattr(__import__('builtins'), kind[5:])()
    if kind == 'custom:Quiet':
        return _Quiet()
    if kind == 'struct.error':
        return struct.error('injected')
    if kind == 'ImageFormatError':
        return F.ImageFormatError('injected')
    return getattr(__import__('builtins'), kind)('injected')


class _CountingIter:
    def __init__(self, chunks):
        self._it = iter(chunks)
        self.pulled = 0
        self.closed = False

    def __iter__(self):
        return self

    def __next__(self):
        c = next(self._it)
        self.pulled += 1
        return c

    def close(self):
        self.closed = True


class _MutableReads:
    def __init__(self, inner):
        self._inner = inner

    def read(self, size=-1):
        return bytearray(self._inner.read(size))

    def tell(self):
        return self._inner.tell()

    def close(self):
        self._inner.close()

    @property
    def closed(self):
        return self._inner.closed


def run_case(col, case, sub):
    """case: content, schedule, mode, plan {name: [k, kind]}, expected,
    allowed, ckind."""
    from vcheck import imgstrat
    F = imgdrive.fi()
    data, _img = imgstrat.realize(case['content'])
    chunks = list(chunking.chunks(data, case['schedule']))
    sizes = chunking.sizes_of(case['schedule'], len(data))
    mode = case.get('mode', 'read')
    if mode in ('read', 'short'):
        # the reader goes on to the EOF read, which yields an empty chunk
        chunks = chunks + [b'']
        if mode == 'short':
            # pipe-like source: the reader asks for more than it gets
            asks = [max(65536, 2 * sz + 1) for sz in sizes] + [65536]
        else:
            asks = sizes + [1]
        sizes = asks
    plan = {k: tuple(v) for k, v in (case.get('plan') or {}).items()}
    expected = case.get('expected')
    allowed = case.get('allowed')
    names = [n for n in NAMES if not allowed or n in allowed]

    log = {n: [] for n in NAMES}
    done = [False]          # reading is over: property faults switched off
    finished = {n: 0 for n in NAMES}
    injected = {}

    originals = dict(F.ALL_FORMATS)

    # pplan: faults inside an inspector's *properties* (complete /
    # format_match raise once chunk k has been eaten).  Only for inspectors
    # other than the expected one: nothing of it may reach the reader.
    pplan = {k: tuple(v) for k, v in (case.get('pplan') or {}).items()}
    if expected in pplan:
        raise core.HarnessError('property faults are for non-expected '
                                'inspectors')

    def make(name, orig):
        def eat_chunk(self, chunk):
            idx = len(log[name])
            log[name].append(bytes(chunk))
            p = plan.get(name)
            if p is not None and p[0] == idx:
                exc = _make_exc(p[1], F)
                injected[name] = exc
                raise exc
            return orig.eat_chunk(self, chunk)

        def faulty(prop):
            def get(self):
                pp = pplan.get(name)
                if pp is not None and pp[2] == prop and \
                        len(log[name]) > pp[0] and not done[0]:
                    raise _make_exc(pp[1], F)
                return getattr(orig, prop).fget(self)
            return property(get)

        def finish(self):
            finished[name] += 1
            return orig.finish(self)
        attrs = {'eat_chunk': eat_chunk, 'finish': finish}
        if name in pplan:
            attrs[pplan[name][2]] = faulty(pplan[name][2])
        return type('Rec_' + name, (orig,), attrs)

    def bad(msg):
        raise Violation(sub, msg, case)

    # shadows: where do real errors / the expected mismatch happen?
    real_err = {}
    mismatch_at = None
    for n in names:
        sh = originals[n]()
        for k, c in enumerate(chunks):
            p = plan.get(n)
            if p is not None and p[0] == k:
                break                      # the injected fault retires it
            try:
                sh.eat_chunk(c)
            except Exception as e:
                real_err[n] = (k, type(e))
                break
            if n == expected and mismatch_at is None and \
                    sh.complete and not sh.format_match:
                mismatch_at = k
                break
    # when does each inspector stop, and does the stream abort?
    stop = {}
    for n in names:
        cand = []
        if n in plan and plan[n][0] < len(chunks):
            cand.append(plan[n][0])
        if n in real_err:
            cand.append(real_err[n][0])
        stop[n] = min(cand) if cand else None
    abort = None      # (index, kind)
    if expected in names:
        if stop[expected] is not None:
            k = stop[expected]
            inj = expected in plan and plan[expected][0] == k
            abort = (k, 'injected' if inj else 'real')
        if mismatch_at is not None and (abort is None or
                                        mismatch_at < abort[0]):
            abort = (mismatch_at, 'mismatch')

    F.ALL_FORMATS.clear()
    F.ALL_FORMATS.update({n: make(n, o) for n, o in originals.items()})
    import logging
    lg = logging.getLogger('oslo_utils.imageutils.format_inspector')
    saved_level = lg.level
    if case.get('loglevel'):
        lg.setLevel(getattr(logging, case['loglevel']))
    try:
        # ckind 'bytearray': the source hands out mutable chunks and the
        # reader keeps the objects it was given (collect, then join): no
        # inspector may alter them afterwards
        mutable = case.get('ckind') == 'bytearray'
        if mode == 'read':
            src = io.BytesIO(data)
        elif mode == 'short':
            src = imgdrive.ShortReadSource(
                data, chunking.sizes_of(case['schedule'], len(data)))
        else:
            src = _CountingIter([bytearray(c) for c in chunks]
                                if mutable else chunks)
        if mutable and mode != 'iter':
            src = _MutableReads(src)
        # selector strings are equal copies, never the interned literals
        w = F.InspectWrapper(
            src, expected_format=core.fresh(expected),
            allowed_formats=None if allowed is None
            else [core.fresh(a) for a in allowed])
        got = []
        raised = None
        for k in range(len(chunks)):
            try:
                if mode in ('read', 'short'):
                    c = w.read(sizes[k])
                else:
                    c = next(w)
            except StopIteration:
                bad('iteration stopped early at chunk %d' % k)
            except Exception as e:
                raised = (k, e)
                break
            got.append(c)
            if mode == 'short':
                # a pipe-like source: the statement fixes the bytes and
                # their order, not how the wrapper groups them into reads
                if len(c) > sizes[k] or not data.startswith(b''.join(got)):
                    bad('read %d returned bytes that are not the next bytes '
                        'of the source' % k)
            elif c != chunks[k]:
                bad('read %d returned %d bytes that differ from the '
                    'source\'s chunk (%d bytes)' % (k, len(c),
                                                    len(chunks[k])))
        consumed = src.tell() if mode in ('read', 'short') else src.pulled
        done[0] = True
        try:
            w.close()
        except Exception as e:
            bad('close() raised %r' % (e,))
    finally:
        lg.setLevel(saved_level)
        F.ALL_FORMATS.clear()
        F.ALL_FORMATS.update(originals)

    if not any(log[n] for n in names) and chunks:
        col.seam(sub, 'ALL_FORMATS patch not used by InspectWrapper')
        return

    # -- what reached the reader
    if abort is None:
        if raised is not None:
            k, e = raised
            culprit = [n for n in names if stop.get(n) == k]
            bad('read %d raised %r although the expected format (%r) did '
                'not fail; faults at that chunk were in %r'
                % (k, e, expected, culprit))
        if b''.join(got) != data:
            bad('bytes read through the wrapper differ from the source')
    else:
        a, kind = abort
        if raised is None:
            bad('expected format %r %s at chunk %d but no read raised'
                % (expected, 'fails' if kind != 'mismatch' else
                   'is complete without matching', a))
        k, e = raised
        if k != a and mode != 'short':
            bad('stream aborted at read %d, expected at read %d (%s of '
                'expected format %r)' % (k, a, kind, expected))
        if kind == 'injected' and e is not injected.get(expected):
            bad('read %d raised %r, not the exception object raised inside '
                'the expected inspector' % (k, e))
        if kind == 'real' and type(e) is not real_err[expected][1]:
            bad('read %d raised %r, the expected inspector fails with %s'
                % (k, e, real_err[expected][1].__name__))
        if kind == 'mismatch' and not isinstance(e, F.ImageFormatError):
            bad('read %d raised %r for a complete non-matching expected '
                'format, expected ImageFormatError' % (k, e))
        want_consumed = (sum(len(c) for c in chunks[:a + 1])
                         if mode in ('read', 'short') else a + 1)
        if consumed != want_consumed:
            bad('after the abort at chunk %d the source position is %d, '
                'expected %d (nothing further consumed)'
                % (a, consumed, want_consumed))
    # -- what reached the inspectors
    last = len(chunks) - 1 if abort is None else abort[0]
    for n in NAMES:
        calls = log[n]
        if n not in names:
            if calls:
                bad('inspector %s was fed although it is outside '
                    'allowed_formats %r' % (n, allowed))
            continue
        if mode == 'short':
            # grouping into calls is free; the bytes fed must be a prefix of
            # the source, in order, without gaps or repeats
            if not data.startswith(b''.join(calls)):
                bad('inspector %s was fed bytes that are not a prefix of the '
                    'source' % n)
            continue
        for i, c in enumerate(calls):
            if i >= len(chunks) or c != chunks[i]:
                bad('inspector %s call %d received bytes that are not the '
                    'source\'s chunk %d' % (n, i, i))
        ncalls = len(calls)
        if n in pplan:
            # the inspector's own code may consult the faulty property and
            # get retired at any chunk (in-order feeding was checked above)
            continue
        if stop[n] is not None and stop[n] <= last:
            ok = [stop[n] + 1]
            if abort is not None and stop[n] == abort[0] and n != expected:
                ok.append(stop[n])       # may not have been shown the chunk
        elif abort is not None and n != expected:
            ok = [last, last + 1]
        else:
            ok = [last + 1]
        if ncalls not in ok:
            bad('inspector %s received %d calls, expected %s (it %s; stream '
                '%s)' % (n, ncalls, ' or '.join(map(str, ok)),
                         ('stops at chunk %d' % stop[n]) if stop[n] is not
                         None else 'never fails',
                         ('aborts at chunk %d' % abort[0]) if abort else
                         'has %d chunks' % len(chunks)))
    # -- close
    for n in names:
        if finished[n] < 1:
            bad('close() did not finish inspector %s' % n)
    if not src.closed:
        bad('close() did not close the source')

    nontrivial = (any(v[0] >= 1 for v in plan.values()) or
                  (expected in plan) or bool(real_err))
    col.case(sub, (core.h64(data), case['schedule'], mode,
                   tuple(sorted(plan.items())), expected,
                   tuple(allowed) if allowed else None, case.get('ckind'),
                   tuple(sorted(pplan.items()))),
             nontrivial,
             ['mode=' + mode, 'faults=%d' % min(len(plan), 3),
              'property-faults=%d' % len(pplan),
              'chunks=' + (case.get('ckind') or 'bytes'),
              'loglevel=' + str(case.get('loglevel')),
              'expected=' + ('none' if not expected else 'set'),
              'abort=' + (abort[1] if abort else 'none'),
              'realerr=%d' % min(len(real_err), 2)],
             {'content': case['content'] if 'bytes' not in case['content']
              else {'bytes_len': len(data)}, 'len': len(data),
              'chunks': len(chunks), 'mode': mode, 'plan': plan,
              'expected': expected, 'allowed': allowed,
              'abort': abort, 'real_errors': {k: [v[0], v[1].__name__]
                                              for k, v in real_err.items()}})


# -------------------------------------------------------------- enumeration

def fixed_sources():
    from vcheck import imggen
    bad_ver = {'base': ['vmdk', dict(version=7)], 'kind': 'traits'}
    bad_loc = {'base': ['vmdk', dict(desc_off=3)], 'kind': 'traits'}
    return [
        ('zeros', {'overlay': dict(length=3000, background='zero', sigs=[]),
                   'kind': 'polyglot'}, ['fixed', 512]),
        ('qcow2', {'base': ['qcow2', dict(length=2048)], 'kind': 'valid'},
         ['fixed', 512]),
        ('vmdk-footer', {'base': ['vmdk', dict(footer=True)], 'kind': 'valid'},
         chunking.from_cuts(
             len(imggen.build('vmdk', dict(footer=True)).data),
             [64, 512, 1024, 2048], empties=[3])),
        ('vmdk-badver', bad_ver, ['fixed', 700]),
        ('vmdk-badloc', bad_loc, chunking.from_cuts(
            len(imggen.build('vmdk', dict(desc_off=3)).data),
            [10, 70, 570, 2570])),
        ('gpt', {'base': ['gpt', dict(length=2048)], 'kind': 'valid'},
         ['sizes', [2048]]),
        ('luks', {'base': ['luks', dict(payload_offset=2, payload=500)],
                  'kind': 'valid'}, ['fixed', 300]),
        ('text', {'base': ['raw', dict(length=2000, kind='ascii')],
                  'kind': 'valid'}, ['fixed', 512]),
        # chunks far larger than any internal buffer size
        ('big', {'base': ['qcow2', dict(length=300000)], 'kind': 'valid'},
         ['fixed', 131073]),
    ]


def single_faults(col, source_idx, mode):
    sub = 'single'
    label, content, sched = fixed_sources()[source_idx]
    from vcheck import imgstrat
    data, _ = imgstrat.realize(content)
    nchunks = len(chunking.sizes_of(sched, len(data))) + (mode != 'iter')
    # the logging configuration must not matter: the iterator runs are done
    # with the inspector's logger at DEBUG
    lvl = 'DEBUG' if mode == 'iter' else None
    run_case(col, {'content': content, 'schedule': sched, 'mode': mode,
                   'plan': {}, 'expected': None, 'allowed': None,
                   'loglevel': lvl}, sub)
    kinds = FAULTS if mode != 'short' else FAULTS[:2]
    for expected in (None,) + NAMES:
        run_case(col, {'content': content, 'schedule': sched, 'mode': mode,
                       'plan': {}, 'expected': expected, 'allowed': None,
                       'loglevel': lvl}, sub)
        run_case(col, {'content': content, 'schedule': sched, 'mode': mode,
                       'plan': {}, 'expected': expected, 'allowed': None,
                       'loglevel': lvl, 'ckind': 'bytearray'}, sub)
        for name in NAMES:
            for k in range(nchunks):
                for kind in kinds:
                    run_case(col, {'content': content, 'schedule': sched,
                                   'mode': mode, 'plan': {name: [k, kind]},
                                   'expected': expected, 'allowed': None,
                                   'loglevel': lvl}, sub)
    # faults inside the properties of inspectors other than the expected one
    for name in NAMES:
        for prop in ('complete', 'format_match'):
            for k in (0, 1):
                for expected in (None, 'raw' if name != 'raw' else 'qcow2',
                                 'vmdk' if name != 'vmdk' else 'vhd'):
                    run_case(col, {'content': content, 'schedule': sched,
                                   'mode': mode, 'plan': {},
                                   'pplan': {name: [k, 'RuntimeError', prop]},
                                   'expected': expected, 'allowed': None,
                                   'loglevel': lvl}, sub)
    col.exhaustive.setdefault(sub, True)


def sampled(col, seed, max_examples, fmts):
    from hypothesis import strategies as st
    from vcheck import imgstrat
    sub = 'multi'

    @st.composite
    def cases(draw):
        content = draw(st.one_of(
            imgstrat.any_content(fmts),
            st.sampled_from([c for _l, c, _s in fixed_sources()])))
        data, img = imgstrat.realize(content)
        if len(data) > 40000:
            content = dict(content, cut=40000)
            data, img = imgstrat.realize(content)
        n = len(data)
        sched = draw(st.one_of(
            st.sampled_from([['fixed', k] for k in (64, 512, 700, 4096)
                             if n / k <= 64] + [['sizes', [n]]]),
            chunking.schedules(n, (4, 64, 512, 592, 1024), allow_tiny=False,
                               max_chunks=64)))
        nchunks = len(chunking.sizes_of(sched, n)) + 1
        faulty = draw(st.lists(st.sampled_from(NAMES), max_size=4,
                               unique=True))
        plan = {name: [draw(st.integers(0, max(0, min(nchunks, 12) - 1))),
                       draw(st.sampled_from(FAULTS))] for name in faulty}
        expected = draw(st.one_of(st.none(), st.sampled_from(NAMES),
                                  st.sampled_from(faulty) if faulty
                                  else st.none()))
        allowed = draw(st.one_of(
            st.none(), st.none(),
            st.lists(st.sampled_from(NAMES), min_size=1, max_size=6,
                     unique=True)))
        return {'content': content, 'schedule': sched,
                'mode': draw(st.sampled_from(['read', 'iter', 'short'])),
                'loglevel': draw(st.sampled_from([None, 'DEBUG'])),
                'ckind': draw(st.sampled_from(['bytes', 'bytes',
                                               'bytearray'])),
                'plan': plan, 'expected': expected, 'allowed': allowed}
    core.run_given(col, cases(), lambda c, case: run_case(c, case, sub),
                   seed, max_examples)


SMALL = ('raw', 'qcow2', 'vhd', 'vmdk', 'vdi', 'qed', 'gpt', 'luks')


def tasks(tier, seed):
    out = []
    for i in range(len(fixed_sources())):
        for mode in ('read', 'iter', 'short'):
            out.append(Task('single', single_faults, source_idx=i,
                            mode=mode))
    ex, shards = (250, 6) if tier == 'quick' else (4000, 12)
    for i in range(shards):
        out.append(Task('multi', sampled,
                        seed=core.derive_seed(seed, ID, 'multi', i),
                        max_examples=ex, fmts=SMALL + ('iso',)))
    return out


def replay(rec):
    run_case(core.Collector(), rec['case'], rec.get('sub') or 'single')
