"""Property-based / fuzzing verification machinery for openstack/oslo.utils.

See /verif/DESIGN.md.  Entry point: ``python -m vcheck <ID> --tier quick``.
"""
