"""Driving inspectors the way InspectWrapper does, and reading verdicts."""

import io

from vcheck import chunking


def fi():
    from oslo_utils.imageutils import format_inspector
    return format_inspector


def _safe(fn):
    try:
        return fn()
    except Exception as e:
        return 'raises:' + type(e).__name__


def safety_outcome(insp):
    F = fi()
    try:
        insp.safety_check()
        return 'pass'
    except F.SafetyCheckFailed as e:
        return 'failed:' + ','.join(sorted(e.failures))
    except F.ImageFormatError:
        return 'refused'
    except Exception as e:
        return 'raises:' + type(e).__name__


def verdict(insp, err=None):
    return (err,
            _safe(lambda: bool(insp.format_match)),
            _safe(lambda: bool(insp.complete)),
            _safe(lambda: insp.virtual_size),
            safety_outcome(insp))


def fidelity_errors(insp, data):
    """Regions whose retained bytes are not the stream's bytes there."""
    bad = []
    for name in list(insp.context_info):
        r = insp.region(name)
        want = data[r.offset:r.offset + len(r.data)] if r.offset >= 0 else None
        if bytes(r.data) != want:
            bad.append((name, r.offset, len(r.data)))
    return bad


def run_queries(insp):
    """The intermediate queries a caller may make; they must not disturb."""
    _safe(lambda: insp.format_match)
    _safe(lambda: insp.complete)
    _safe(lambda: insp.virtual_size)
    _safe(lambda: dict(insp.context_info))
    _safe(lambda: insp.actual_size)
    safety_outcome(insp)


# Ambient configuration: FileInspector(tracing=...) is a rarely used
# constructor argument that must not change any conclusion.  Checks flip it
# per case (derived from the case, so replay reproduces it).
TRACING = [False]


# How a chunk is handed over: an immutable bytes object, or - as a reader
# that fills one buffer over and over (readinto loops) does - a bytearray or
# a memoryview of a buffer whose content the caller overwrites as soon as
# eat_chunk / read returns.  The stream's bytes are what was presented at the
# time of the call; nothing may depend on what the caller's buffer holds later.
CHUNK_TYPE = ['bytes']
CHUNK_TYPES = ('bytes', 'bytes', 'bytearray', 'memoryview')


def tracing_for(key):
    """Deterministic per-case choice of the tracing flag (and of the chunk
    object type, see CHUNK_TYPE)."""
    from vcheck import core
    h = core.h64(('tracing', key))
    TRACING[0] = bool(h & 1)
    CHUNK_TYPE[0] = CHUNK_TYPES[(h >> 1) & 3]
    LOGLEVEL[0] = LOGLEVELS[(h >> 3) & 3]
    DECOY[0] = DECOYS[(h >> 5) & 3]
    return TRACING[0]


# Instance isolation: while the stream under test is being read, a second,
# unrelated stream is read through another instance (of the same inspector
# class, or another InspectWrapper), one chunk after each chunk of the first.
# What the first one concludes may not depend on it.
DECOY = [None]
DECOYS = (None, None, 'noise', 'image')


def decoy_bytes(kind, name=None):
    from vcheck import imggen
    if kind == 'image':
        # a well-formed image of the inspector's own format if there is one
        fmt = name if name in imggen.FORMATS and name != 'raw' else 'qcow2'
        try:
            return imggen.build(fmt, {}).data[:70000]
        except Exception:
            return imggen.build('qcow2', {}).data
    return imggen.rnd(0xDEC0, 1536) + b'\0' * 512


# The logging configuration of the process (a service logging only errors,
# a debug run, logging switched off altogether) is ambient too: drive() and
# drive_wrapper() run under the level chosen here.
LOGLEVEL = [None]
LOGLEVELS = (None, 'DEBUG', 'CRITICAL', 'DISABLED')


class Presenter:
    """Hands out chunks in the ambient CHUNK_TYPE and scribbles over the
    buffer afterwards."""

    def __init__(self, kind=None):
        self.kind = kind or CHUNK_TYPE[0]
        self.buf = bytearray(0)

    def give(self, chunk):
        """-> (object to present, handle for scribble() or None)"""
        if self.kind == 'bytes' or not chunk:
            return chunk, None
        if self.kind == 'bytearray':
            ba = bytearray(chunk)
            return ba, ba
        n = len(chunk)
        if len(self.buf) < n:
            self.buf = bytearray(n)     # never resized while views exist
        self.buf[:n] = chunk
        return memoryview(self.buf)[:n], (self.buf, n)

    @staticmethod
    def scribble(handle):
        if handle is None:
            return
        if isinstance(handle, tuple):
            buf, n = handle
            buf[:n] = b'\xa5' * n
        else:
            handle[:] = b'\xa5' * len(handle)


class MutableChunkSource:
    """File-like / iterable source whose chunks are bytearrays (kind
    'bytearray') or memoryviews of one reused buffer; the reader scribbles
    over each chunk once it has copied it (see drive_wrapper)."""

    def __init__(self, inner, presenter):
        self._inner = inner
        self._p = presenter
        self.handles = []

    def read(self, size=-1):
        obj, h = self._p.give(self._inner.read(size))
        self.handles.append(h)
        return obj

    def __iter__(self):
        return self

    def __next__(self):
        obj, h = self._p.give(next(self._inner))
        self.handles.append(h)
        return obj

    def tell(self):
        return self._inner.tell()

    def close(self):
        close = getattr(self._inner, 'close', None)
        if close:
            close()


def new_inspector(name):
    F = fi()
    cls = F.ALL_FORMATS[name]
    if TRACING[0]:
        try:
            return cls(tracing=True)
        except TypeError:
            return cls()
    return cls()


def drive(name, data, schedule, queries=None, fidelity=False,
          after_chunk=None, kind=None):
    """Feed `data` cut by `schedule` to a fresh inspector of format `name`.

    Returns (verdict, inspector, fidelity_failures).  On an exception out of
    eat_chunk the inspector is not fed again (InspectWrapper's contract).
    """
    with inspector_loglevel(LOGLEVEL[0]):
        return _drive(name, data, schedule, queries, fidelity, after_chunk,
                      kind)


def _drive(name, data, schedule, queries, fidelity, after_chunk, kind):
    insp = new_inspector(name)
    err = None
    fid = []
    pres = Presenter(kind)
    decoy = dbytes = None
    if DECOY[0] and kind is None:
        decoy = new_inspector(name)
        dbytes = decoy_bytes(DECOY[0], name)
    for i, chunk in enumerate(chunking.chunks(data, schedule)):
        obj, handle = pres.give(chunk)
        try:
            insp.eat_chunk(obj)
        except Exception as e:
            err = type(e).__name__
            break
        finally:
            del obj
            Presenter.scribble(handle)
        if decoy is not None:
            try:
                decoy.eat_chunk(dbytes[i * 512:(i + 1) * 512])
            except Exception:
                decoy = None
        if queries is not None and i in queries:
            run_queries(insp)
        if fidelity and not fid:
            fid = [(i,) + b for b in fidelity_errors(insp, data)]
        if after_chunk is not None:
            after_chunk(i, insp)
    insp.finish()
    if fidelity and not fid:
        fid = [('end',) + b for b in fidelity_errors(insp, data)]
    return verdict(insp, err), insp, fid


def wrapper_outcome(w):
    """(format outcome, formats outcome) of an InspectWrapper."""
    F = fi()

    def name_of(x):
        return None if x is None else str(x)

    try:
        fm = name_of(w.format)
    except F.ImageFormatError:
        fm = 'ImageFormatError'
    except Exception as e:
        fm = 'raises:' + type(e).__name__
    try:
        fs = w.formats
        fs = None if fs is None else sorted(str(x) for x in fs)
    except F.ImageFormatError:
        fs = 'ImageFormatError'
    except Exception as e:
        fs = 'raises:' + type(e).__name__
    return fm, fs


class ShortReadSource:
    """A file-like source that, like a pipe or socket, may return fewer
    bytes than asked for: read k returns exactly sizes[k] bytes (never more
    than requested), then b'' at EOF."""

    def __init__(self, data, sizes):
        self._data = data
        self._sizes = [s for s in sizes]
        self._k = 0
        self._pos = 0
        self.closed = False
        self.reads = 0

    def read(self, size=-1):
        self.reads += 1
        if self._k < len(self._sizes):
            n = self._sizes[self._k]
            self._k += 1
        else:
            n = len(self._data) - self._pos
        if size is not None and size >= 0:
            n = min(n, size)
        out = self._data[self._pos:self._pos + n]
        self._pos += len(out)
        return out

    def tell(self):
        return self._pos

    def close(self):
        self.closed = True


import contextlib


@contextlib.contextmanager
def inspector_loglevel(level):
    """Run with the inspector's logger at `level` (e.g. 'DEBUG'): what the
    library concludes must not depend on the logging configuration."""
    import logging
    if not level:
        yield
        return
    if level == 'DISABLED':
        saved_disable = logging.root.manager.disable
        logging.disable(logging.CRITICAL)
        try:
            yield
        finally:
            logging.disable(saved_disable)
        return
    lg = logging.getLogger('oslo_utils.imageutils.format_inspector')
    saved = lg.level
    lg.setLevel(getattr(logging, level))
    try:
        yield
    finally:
        lg.setLevel(saved)


def drive_wrapper(data, schedule, mode='read', expected=None, allowed=None,
                  sample=False, kind=None):
    from vcheck import core
    # selector strings reach the library as equal copies of the literals
    expected = core.fresh(expected)
    if allowed is not None:
        allowed = [core.fresh(a) for a in allowed]
    return _drive_wrapper(data, schedule, mode, expected, allowed, sample,
                          kind)


def _drive_wrapper(data, schedule, mode, expected, allowed, sample, kind):
    """Read `data` through InspectWrapper with the given read sizes.

    mode 'read': wrapper.read(size) for each schedule entry (an empty read
    in the schedule is an explicit read(0)); 'iter': iterate over chunks.
    Returns (outcome, per-read samples, bytes read back, error)."""
    F = fi()
    samples = []
    got = []
    err = None
    pres = Presenter(kind)

    def keep(c):
        # the reader copies what it was given and then reuses its buffer
        got.append(bytes(c))
        if pres.kind != 'bytes' and src_m.handles:
            Presenter.scribble(src_m.handles[-1])

    src_m = None
    decoy = None
    if DECOY[0] and kind is None:
        decoy = F.InspectWrapper(io.BytesIO(decoy_bytes(DECOY[0])))

    def poke():
        # one read on the unrelated stream, and a look at its conclusion
        nonlocal decoy
        if decoy is not None:
            try:
                decoy.read(512)
                wrapper_outcome(decoy)
            except Exception:
                decoy = None

    if mode in ('read', 'short'):
        sizes = chunking.sizes_of(schedule, len(data))
        if mode == 'short':
            # pipe-like source: the reader always asks for 64 KiB and gets
            # what the schedule says
            src = ShortReadSource(data, sizes)
            asks = [max(65536, sz + 1) for sz in sizes]
        else:
            src = io.BytesIO(data)
            asks = sizes
        if pres.kind != 'bytes':
            src = src_m = MutableChunkSource(src, pres)
        w = F.InspectWrapper(src, expected_format=expected,
                             allowed_formats=allowed)
        try:
            if sample:
                samples.append(wrapper_outcome(w))      # before any read
            for sz in asks:
                keep(w.read(sz))
                poke()
                if sample:
                    samples.append(wrapper_outcome(w))
            keep(w.read(1))      # EOF read (empty)
            if sample:
                samples.append(wrapper_outcome(w))
        except Exception as e:
            err = type(e).__name__
    else:
        src = iter(list(chunking.chunks(data, schedule)))
        if pres.kind != 'bytes':
            src = src_m = MutableChunkSource(src, pres)
        w = F.InspectWrapper(src, expected_format=expected,
                             allowed_formats=allowed)
        try:
            if sample:
                samples.append(wrapper_outcome(w))      # before any chunk
            for c in w:
                keep(c)
                poke()
                if sample:
                    samples.append(wrapper_outcome(w))
        except Exception as e:
            err = type(e).__name__
    try:
        w.close()
    except Exception as e:
        # close() finishes the inspectors; what escapes from it reaches the
        # reader like any other error of the wrapper
        if err is None:
            err = 'close:' + type(e).__name__
    return wrapper_outcome(w), samples, b''.join(got), err, w
