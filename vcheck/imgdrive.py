"""Driving inspectors the way InspectWrapper does, and reading verdicts."""

import io

from vcheck import chunking


def fi():
    from oslo_utils.imageutils import format_inspector
    return format_inspector


def _safe(fn):
    try:
        return fn()
    except Exception as e:
        return 'raises:' + type(e).__name__


def safety_outcome(insp):
    F = fi()
    try:
        insp.safety_check()
        return 'pass'
    except F.SafetyCheckFailed as e:
        return 'failed:' + ','.join(sorted(e.failures))
    except F.ImageFormatError:
        return 'refused'
    except Exception as e:
        return 'raises:' + type(e).__name__


def verdict(insp, err=None):
    return (err,
            _safe(lambda: bool(insp.format_match)),
            _safe(lambda: bool(insp.complete)),
            _safe(lambda: insp.virtual_size),
            safety_outcome(insp))


def fidelity_errors(insp, data):
    """Regions whose retained bytes are not the stream's bytes there."""
    bad = []
    for name in list(insp.context_info):
        r = insp.region(name)
        want = data[r.offset:r.offset + len(r.data)] if r.offset >= 0 else None
        if bytes(r.data) != want:
            bad.append((name, r.offset, len(r.data)))
    return bad


def run_queries(insp):
    """The intermediate queries a caller may make; they must not disturb."""
    _safe(lambda: insp.format_match)
    _safe(lambda: insp.complete)
    _safe(lambda: insp.virtual_size)
    _safe(lambda: dict(insp.context_info))
    _safe(lambda: insp.actual_size)
    safety_outcome(insp)


# Ambient configuration: FileInspector(tracing=...) is a rarely used
# constructor argument that must not change any conclusion.  Checks flip it
# per case (derived from the case, so replay reproduces it).
TRACING = [False]


def tracing_for(key):
    """Deterministic per-case choice of the tracing flag."""
    from vcheck import core
    TRACING[0] = bool(core.h64(('tracing', key)) & 1)
    return TRACING[0]


def new_inspector(name):
    F = fi()
    cls = F.ALL_FORMATS[name]
    if TRACING[0]:
        try:
            return cls(tracing=True)
        except TypeError:
            return cls()
    return cls()


def drive(name, data, schedule, queries=None, fidelity=False,
          after_chunk=None):
    """Feed `data` cut by `schedule` to a fresh inspector of format `name`.

    Returns (verdict, inspector, fidelity_failures).  On an exception out of
    eat_chunk the inspector is not fed again (InspectWrapper's contract).
    """
    insp = new_inspector(name)
    err = None
    fid = []
    for i, chunk in enumerate(chunking.chunks(data, schedule)):
        try:
            insp.eat_chunk(chunk)
        except Exception as e:
            err = type(e).__name__
            break
        if queries is not None and i in queries:
            run_queries(insp)
        if fidelity and not fid:
            fid = [(i,) + b for b in fidelity_errors(insp, data)]
        if after_chunk is not None:
            after_chunk(i, insp)
    insp.finish()
    if fidelity and not fid:
        fid = [('end',) + b for b in fidelity_errors(insp, data)]
    return verdict(insp, err), insp, fid


def wrapper_outcome(w):
    """(format outcome, formats outcome) of an InspectWrapper."""
    F = fi()

    def name_of(x):
        return None if x is None else str(x)

    try:
        fm = name_of(w.format)
    except F.ImageFormatError:
        fm = 'ImageFormatError'
    except Exception as e:
        fm = 'raises:' + type(e).__name__
    try:
        fs = w.formats
        fs = None if fs is None else sorted(str(x) for x in fs)
    except F.ImageFormatError:
        fs = 'ImageFormatError'
    except Exception as e:
        fs = 'raises:' + type(e).__name__
    return fm, fs


class ShortReadSource:
    """A file-like source that, like a pipe or socket, may return fewer
    bytes than asked for: read k returns exactly sizes[k] bytes (never more
    than requested), then b'' at EOF."""

    def __init__(self, data, sizes):
        self._data = data
        self._sizes = [s for s in sizes]
        self._k = 0
        self._pos = 0
        self.closed = False
        self.reads = 0

    def read(self, size=-1):
        self.reads += 1
        if self._k < len(self._sizes):
            n = self._sizes[self._k]
            self._k += 1
        else:
            n = len(self._data) - self._pos
        if size is not None and size >= 0:
            n = min(n, size)
        out = self._data[self._pos:self._pos + n]
        self._pos += len(out)
        return out

    def tell(self):
        return self._pos

    def close(self):
        self.closed = True


import contextlib


@contextlib.contextmanager
def inspector_loglevel(level):
    """Run with the inspector's logger at `level` (e.g. 'DEBUG'): what the
    library concludes must not depend on the logging configuration."""
    import logging
    if not level:
        yield
        return
    lg = logging.getLogger('oslo_utils.imageutils.format_inspector')
    saved = lg.level
    lg.setLevel(getattr(logging, level))
    try:
        yield
    finally:
        lg.setLevel(saved)


def drive_wrapper(data, schedule, mode='read', expected=None, allowed=None,
                  sample=False):
    """Read `data` through InspectWrapper with the given read sizes.

    mode 'read': wrapper.read(size) for each schedule entry (an empty read
    in the schedule is an explicit read(0)); 'iter': iterate over chunks.
    Returns (outcome, per-read samples, bytes read back, error)."""
    F = fi()
    samples = []
    got = []
    err = None
    if mode in ('read', 'short'):
        sizes = chunking.sizes_of(schedule, len(data))
        if mode == 'short':
            # pipe-like source: the reader always asks for 64 KiB and gets
            # what the schedule says
            src = ShortReadSource(data, sizes)
            asks = [max(65536, sz + 1) for sz in sizes]
        else:
            src = io.BytesIO(data)
            asks = sizes
        w = F.InspectWrapper(src, expected_format=expected,
                             allowed_formats=allowed)
        try:
            if sample:
                samples.append(wrapper_outcome(w))      # before any read
            for sz in asks:
                got.append(w.read(sz))
                if sample:
                    samples.append(wrapper_outcome(w))
            got.append(w.read(1))      # EOF read (empty)
            if sample:
                samples.append(wrapper_outcome(w))
        except Exception as e:
            err = type(e).__name__
    else:
        w = F.InspectWrapper(iter(list(chunking.chunks(data, schedule))),
                             expected_format=expected,
                             allowed_formats=allowed)
        try:
            if sample:
                samples.append(wrapper_outcome(w))      # before any chunk
            for c in w:
                got.append(c)
                if sample:
                    samples.append(wrapper_outcome(w))
        except Exception as e:
            err = type(e).__name__
    w.close()
    return wrapper_outcome(w), samples, b''.join(got), err, w
